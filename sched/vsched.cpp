// Deterministic scheduler by symbol interposition (DESIGN.md 2.6).
// Defines the pthread synchronisation entry points in the test executable, so that every use of
// std::mutex / std::condition_variable / std::thread in the code under test resolves here.  Between
// vsched_begin() and vsched_end() exactly one managed thread runs; mutexes and condition variables are
// modelled; every intercepted call is a scheduling point at which the next schedule byte picks the next
// enabled thread.  Deadlock = no enabled thread while some thread is unfinished.
#include "vsched.h"

#include <dlfcn.h>
#include <errno.h>
#include <pthread.h>
#include <stdio.h>
#include <stdlib.h>
#include <string.h>
#include <unistd.h>

#include <map>
#include <set>
#include <string>
#include <vector>

namespace {

typedef int (*fn_mutex)(pthread_mutex_t *);
typedef int (*fn_cond_wait)(pthread_cond_t *, pthread_mutex_t *);
typedef int (*fn_cond_timedwait)(pthread_cond_t *, pthread_mutex_t *, const struct timespec *);
typedef int (*fn_cond_clockwait)(pthread_cond_t *, pthread_mutex_t *, clockid_t, const struct timespec *);
typedef int (*fn_cond)(pthread_cond_t *);
typedef int (*fn_create)(pthread_t *, const pthread_attr_t *, void *(*)(void *), void *);
typedef int (*fn_join)(pthread_t, void **);

fn_mutex real_lock, real_trylock, real_unlock;
fn_cond_wait real_cond_wait;
fn_cond_timedwait real_cond_timedwait;
fn_cond_clockwait real_cond_clockwait;
fn_cond real_cond_signal, real_cond_broadcast;
fn_create real_create;
fn_join real_join;

void resolve() {
  static bool done = false;
  if (done) return;
  done = true;
  real_lock = (fn_mutex)dlsym(RTLD_NEXT, "pthread_mutex_lock");
  real_trylock = (fn_mutex)dlsym(RTLD_NEXT, "pthread_mutex_trylock");
  real_unlock = (fn_mutex)dlsym(RTLD_NEXT, "pthread_mutex_unlock");
  real_cond_wait = (fn_cond_wait)dlsym(RTLD_NEXT, "pthread_cond_wait");
  real_cond_timedwait = (fn_cond_timedwait)dlsym(RTLD_NEXT, "pthread_cond_timedwait");
  real_cond_clockwait = (fn_cond_clockwait)dlsym(RTLD_NEXT, "pthread_cond_clockwait");
  real_cond_signal = (fn_cond)dlsym(RTLD_NEXT, "pthread_cond_signal");
  real_cond_broadcast = (fn_cond)dlsym(RTLD_NEXT, "pthread_cond_broadcast");
  real_create = (fn_create)dlsym(RTLD_NEXT, "pthread_create");
  real_join = (fn_join)dlsym(RTLD_NEXT, "pthread_join");
}

enum State { RUNNABLE, BLK_MUTEX, BLK_COND, BLK_JOIN, FINISHED };

struct Thr {
  int id;
  pthread_t handle;
  State st = RUNNABLE;
  void *waiting_on = nullptr;  // mutex / cond
  int join_target = -1;
  bool go = false;             // permission to run (guarded by G)
  pthread_cond_t wake;         // real condvar paired with G
  void *(*fn)(void *) = nullptr;
  void *arg = nullptr;
  void *ret = nullptr;
  int prio = 0;                // PCT
};

pthread_mutex_t G = PTHREAD_MUTEX_INITIALIZER;  // real lock protecting everything below
bool active = false;
std::vector<Thr *> thr;
std::map<void *, int> owner;        // modelled mutex -> owner id (absent = free)
int current = -1;
const unsigned char *sched_bytes = nullptr;
size_t sched_len = 0, sched_pos = 0;
int strategy = 0;                   // 0 random, 1 PCT, 2 enumeration (explicit choice list, bounded pre-emptions)
// enumeration: every point with k >= 2 alternatives consumes one entry of the prefix (default 0 = keep the
// running thread / the first candidate) and records (choice, k); the driver backtracks over the record
std::vector<unsigned char> enum_prefix, enum_c, enum_k;
size_t enum_pos = 0;
int enum_bound = 2;
int enum_choice(int k) {
  unsigned char c = enum_pos < enum_prefix.size() ? enum_prefix[enum_pos] : 0;
  if (c >= k) c = 0;
  enum_pos++;
  enum_c.push_back(c);
  enum_k.push_back((unsigned char)k);
  return c;
}
std::vector<size_t> pct_change;     // step numbers at which the running thread's priority drops
size_t step_no = 0;
vsched_stats stats;
__thread int my_id = -1;

unsigned char next_byte() { return sched_pos < sched_len ? sched_bytes[sched_pos++] : 0; }

bool enabled(const Thr *t) {
  switch (t->st) {
    case RUNNABLE: return true;
    case BLK_MUTEX: return owner.find(t->waiting_on) == owner.end();
    case BLK_COND: return false;
    case BLK_JOIN: return thr[t->join_target]->st == FINISHED;
    case FINISHED: return false;
  }
  return false;
}

void deadlock() {
  // all threads blocked, some unfinished: report and leave (the process cannot be recovered)
  stats.deadlock = 1;
  std::string d = "deadlock:";
  for (Thr *t : thr) {
    d += " T" + std::to_string(t->id) + "=";
    d += t->st == RUNNABLE ? "run" : t->st == BLK_MUTEX ? "mutex" : t->st == BLK_COND ? "cond" : t->st == BLK_JOIN ? "join(T" + std::to_string(t->join_target) + ")" : "done";
  }
  snprintf(stats.detail, sizeof stats.detail, "%s", d.c_str());
  if (vsched_on_deadlock) vsched_on_deadlock(&stats);
  _exit(86);
}

// chooses the next thread to run; called with G held by the thread `me`
int choose(int me) {
  std::vector<int> en;
  for (Thr *t : thr) if (enabled(t)) en.push_back(t->id);
  if (en.empty()) {
    bool unfinished = false;
    for (Thr *t : thr) if (t->st != FINISHED) unfinished = true;
    if (unfinished) deadlock();
    return -1;
  }
  step_no++;
  stats.points++;
  bool me_enabled = me >= 0 && enabled(thr[me]);
  if (strategy == 2) {
    std::vector<int> order;
    if (me_enabled) order.push_back(me);
    for (int id : en) if (!me_enabled || id != me) order.push_back(id);
    if (order.size() == 1) return order[0];
    if (me_enabled && stats.preemptions >= enum_bound) return me;   // budget of pre-emptions used up
    int c = enum_choice((int)order.size());
    if (me_enabled && c > 0) stats.preemptions++;
    return order[c];
  }
  if (strategy == 1) {
    for (size_t c : pct_change) if (c == step_no && me >= 0) thr[me]->prio = -(int)step_no;  // drop below everyone
    int best = en[0];
    for (int id : en) if (thr[id]->prio > thr[best]->prio) best = id;
    if (me_enabled && best != me) stats.preemptions++;
    return best;
  }
  unsigned char b = next_byte();
  if (b < 150 && me_enabled) return me;  // byte 0 (and most bytes) = keep running: few preemptions
  int pick = en[b % en.size()];
  if (me_enabled && pick != me) stats.preemptions++;
  return pick;
}

void wait_turn(Thr *t) {  // G held
  while (!t->go) real_cond_wait(&t->wake, &G);
  t->go = false;
  current = t->id;
}

void hand_over(int me, int next) {  // G held
  if (next == me) return;
  Thr *n = thr[next];
  n->go = true;
  real_cond_signal(&n->wake);
  if (me >= 0 && thr[me]->st != FINISHED) wait_turn(thr[me]);
}

// a scheduling point of the running thread (which stays runnable)
void sched_point(int me) {
  int next = choose(me);
  if (next >= 0 && next != me) hand_over(me, next);
}

// the running thread cannot continue: give the processor away until it is chosen again
void block(int me) {
  while (true) {
    int next = choose(me);
    if (next == me) return;
    if (next < 0) deadlock();
    hand_over(me, next);
    if (enabled(thr[me])) return;
  }
}

struct Start { Thr *t; };

void *trampoline(void *p) {
  Thr *t = ((Start *)p)->t;
  delete (Start *)p;
  my_id = t->id;
  real_lock(&G);
  wait_turn(t);
  real_unlock(&G);
  void *r = t->fn(t->arg);
  real_lock(&G);
  t->ret = r;
  t->st = FINISHED;
  int next = choose(-1);
  if (next >= 0) { thr[next]->go = true; real_cond_signal(&thr[next]->wake); }
  real_unlock(&G);
  return r;
}

bool managed() { return active && my_id >= 0; }

}  // namespace

void (*vsched_on_deadlock)(const vsched_stats *) = nullptr;

extern "C" {

void vsched_begin(const unsigned char *bytes, size_t n) {
  resolve();
  real_lock(&G);
  for (Thr *t : thr) delete t;
  thr.clear();
  owner.clear();
  memset(&stats, 0, sizeof stats);
  sched_bytes = bytes;
  sched_len = n;
  sched_pos = 0;
  step_no = 0;
  pct_change.clear();
  strategy = n ? (bytes[0] % 4 == 3 ? 1 : 0) : 0;
  sched_pos = n ? 1 : 0;
  if (strategy == 1) {
    int d = 1 + next_byte() % 3;
    for (int i = 0; i < d; i++) pct_change.push_back(1 + (next_byte() | (next_byte() << 8)) % 400);
  }
  Thr *m = new Thr();
  m->id = 0;
  m->handle = pthread_self();
  pthread_cond_init(&m->wake, nullptr);
  m->prio = strategy == 1 ? 1 + next_byte() : 0;
  thr.push_back(m);
  my_id = 0;
  current = 0;
  active = true;
  real_unlock(&G);
}

void vsched_begin_enum(const unsigned char *prefix, size_t n, int bound) {
  vsched_begin(nullptr, 0);
  real_lock(&G);
  strategy = 2;
  enum_prefix.assign(prefix, prefix + n);
  enum_c.clear();
  enum_k.clear();
  enum_pos = 0;
  enum_bound = bound;
  real_unlock(&G);
}

size_t vsched_enum_trace(unsigned char *c, unsigned char *k, size_t cap) {
  size_t n = enum_c.size() < cap ? enum_c.size() : cap;
  for (size_t i = 0; i < n; i++) { c[i] = enum_c[i]; k[i] = enum_k[i]; }
  return enum_c.size();
}

vsched_stats vsched_end(void) {
  real_lock(&G);
  active = false;
  my_id = -1;
  stats.threads = (int)thr.size();
  stats.bytes_used = sched_pos;
  vsched_stats s = stats;
  real_unlock(&G);
  return s;
}

int pthread_mutex_lock(pthread_mutex_t *m) {
  resolve();
  if (!managed()) return real_lock(m);
  real_lock(&G);
  int me = my_id;
  sched_point(me);
  while (owner.find(m) != owner.end()) {
    thr[me]->st = BLK_MUTEX;
    thr[me]->waiting_on = m;
    block(me);
  }
  thr[me]->st = RUNNABLE;
  owner[m] = me;
  real_unlock(&G);
  return 0;
}

int pthread_mutex_trylock(pthread_mutex_t *m) {
  resolve();
  if (!managed()) return real_trylock(m);
  real_lock(&G);
  int me = my_id;
  sched_point(me);
  int r = EBUSY;
  if (owner.find(m) == owner.end()) { owner[m] = me; r = 0; }
  real_unlock(&G);
  return r;
}

int pthread_mutex_unlock(pthread_mutex_t *m) {
  resolve();
  if (!managed()) return real_unlock(m);
  real_lock(&G);
  int me = my_id;
  owner.erase(m);
  sched_point(me);
  real_unlock(&G);
  return 0;
}

static int cond_wait_impl(pthread_cond_t *c, pthread_mutex_t *m) {
  real_lock(&G);
  int me = my_id;
  stats.cond_waits++;
  // atomically: release the mutex and start waiting
  owner.erase(m);
  thr[me]->st = BLK_COND;
  thr[me]->waiting_on = c;
  block(me);
  // woken: re-acquire the mutex
  while (owner.find(m) != owner.end()) {
    thr[me]->st = BLK_MUTEX;
    thr[me]->waiting_on = m;
    block(me);
  }
  thr[me]->st = RUNNABLE;
  owner[m] = me;
  real_unlock(&G);
  return 0;
}

int pthread_cond_wait(pthread_cond_t *c, pthread_mutex_t *m) {
  resolve();
  if (!managed()) return real_cond_wait(c, m);
  return cond_wait_impl(c, m);
}
// timed waits are modelled as plain waits: a time-out may only help a thread, never block it, so a
// deadlock found this way could be a false one; the code under test uses none (checked in sched_case)
int pthread_cond_timedwait(pthread_cond_t *c, pthread_mutex_t *m, const struct timespec *ts) {
  resolve();
  if (!managed()) return real_cond_timedwait(c, m, ts);
  stats.timed_waits++;
  return cond_wait_impl(c, m);
}
int pthread_cond_clockwait(pthread_cond_t *c, pthread_mutex_t *m, clockid_t ck, const struct timespec *ts) {
  resolve();
  if (!managed()) return real_cond_clockwait ? real_cond_clockwait(c, m, ck, ts) : real_cond_timedwait(c, m, ts);
  stats.timed_waits++;
  return cond_wait_impl(c, m);
}

int pthread_cond_signal(pthread_cond_t *c) {
  resolve();
  if (!managed()) return real_cond_signal(c);
  real_lock(&G);
  int me = my_id;
  std::vector<int> w;
  for (Thr *t : thr) if (t->st == BLK_COND && t->waiting_on == c) w.push_back(t->id);
  if (!w.empty()) { int pick = w[strategy == 2 ? (w.size() > 1 ? enum_choice((int)w.size()) : 0) : next_byte() % w.size()]; thr[pick]->st = RUNNABLE; }
  else stats.notify_without_waiter++;
  sched_point(me);
  real_unlock(&G);
  return 0;
}

int pthread_cond_broadcast(pthread_cond_t *c) {
  resolve();
  if (!managed()) return real_cond_broadcast(c);
  real_lock(&G);
  int me = my_id;
  int n = 0;
  for (Thr *t : thr) if (t->st == BLK_COND && t->waiting_on == c) { t->st = RUNNABLE; n++; }
  if (!n) stats.notify_without_waiter++;
  sched_point(me);
  real_unlock(&G);
  return 0;
}

int pthread_create(pthread_t *out, const pthread_attr_t *attr, void *(*fn)(void *), void *arg) {
  resolve();
  if (!managed()) return real_create(out, attr, fn, arg);
  real_lock(&G);
  int me = my_id;
  Thr *t = new Thr();
  t->id = (int)thr.size();
  t->fn = fn;
  t->arg = arg;
  pthread_cond_init(&t->wake, nullptr);
  t->prio = strategy == 1 ? 1 + next_byte() : 0;
  thr.push_back(t);
  Start *s = new Start{t};
  int r = real_create(&t->handle, attr, trampoline, s);
  if (out) *out = t->handle;
  sched_point(me);
  real_unlock(&G);
  return r;
}

int pthread_join(pthread_t h, void **ret) {
  resolve();
  if (!managed()) return real_join(h, ret);
  real_lock(&G);
  int me = my_id, target = -1;
  for (Thr *t : thr) if (t->id != 0 && pthread_equal(t->handle, h)) target = t->id;
  if (target < 0) { real_unlock(&G); return real_join(h, ret); }
  sched_point(me);
  while (thr[target]->st != FINISHED) {
    thr[me]->st = BLK_JOIN;
    thr[me]->join_target = target;
    block(me);
  }
  thr[me]->st = RUNNABLE;
  real_unlock(&G);
  // the real thread is past its body (or about to return): reap it
  return real_join(h, ret);
}

}  // extern "C"
