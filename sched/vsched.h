// Deterministic scheduler interface (see vsched.cpp)
#pragma once
#include <stddef.h>
#ifdef __cplusplus
extern "C" {
#endif
typedef struct vsched_stats {
  int deadlock;
  int threads;
  long points;               // scheduling points taken
  long preemptions;          // points at which a runnable thread was switched out
  long cond_waits;
  long timed_waits;
  long notify_without_waiter;
  size_t bytes_used;
  char detail[256];
} vsched_stats;
void vsched_begin(const unsigned char *schedule, size_t n);
vsched_stats vsched_end(void);
#ifdef __cplusplus
}
extern void (*vsched_on_deadlock)(const vsched_stats *);
#endif
