// Deterministic scheduler interface (see vsched.cpp)
#pragma once
#include <stddef.h>
#ifdef __cplusplus
extern "C" {
#endif
typedef struct vsched_stats {
  int deadlock;
  int threads;
  long points;               // scheduling points taken
  long preemptions;          // points at which a runnable thread was switched out
  long cond_waits;
  long timed_waits;
  long notify_without_waiter;
  size_t bytes_used;
  char detail[256];
} vsched_stats;
void vsched_begin(const unsigned char *schedule, size_t n);
vsched_stats vsched_end(void);
// enumeration mode: explicit choices at every point with >= 2 alternatives, at most `bound` pre-emptions
// of a runnable thread; vsched_enum_trace returns the (choice, alternatives) record of the run
void vsched_begin_enum(const unsigned char *prefix, size_t n, int bound);
size_t vsched_enum_trace(unsigned char *c, unsigned char *k, size_t cap);
#ifdef __cplusplus
}
extern void (*vsched_on_deadlock)(const vsched_stats *);
#endif
