#!/usr/bin/env python3
"""Writes seeded/<id>/meta.json from the hand-written table below and the automatic confirmation record."""
import json, os
S = os.path.join(os.path.dirname(os.path.dirname(os.path.abspath(__file__))), "seeded")
T = {
 "C01-pfc-full-last-bucket": ("C01", "PFC locate treats a completely full last bucket as empty", "PFC only; n an exact multiple of the bucket size; the looked-up string is a non-header string of the last bucket"),
 "C01b-hashrpf-probe-sequence": ("C01", "HASHRPF locate probes home,+h2,+3h2,+6h2.. while insertion probes home,+h2,+2h2..", "HASHRPF only; a member that collided at least twice at build time (sits at the third probe or later); fresh and loaded alike"),
 "C02-pfc-stale-shared-prefix": ("C02", "PFC locate keeps scanning a bucket with a stale shared-prefix length and accepts another member", "PFC, bucket size >= 4; absent query whose predecessor is an internal string; a later string of the same bucket with front-coding LCP equal to the stale value and the same tail (about 0.3% of random absent queries on dense sets)"),
 "C03-rpdac-signed-compare": ("C03", "RPDAC locate compares one byte pair as signed char", "RPDAC only; a pivot of the binary search first differs from the query at a position where exactly one byte is >= 0x80 and the pivot holds a bare terminal there"),
 "C04-pfc-distinctprefix": ("C04", "PFC searchDistinctPrefix never inspects the last internal string of the right-most candidate bucket", "PFC only; the match range ends exactly at the last string of a bucket (full bucket end or last partial bucket) and that bucket holds >= 2 matches"),
 "C05-fmindex-sample-mapping": ("C05", "FMINDEX build_ssa converts one suffix sample too few into a member ID", "FMINDEX, BWT sampling s >= 2 with (len+1) mod s != 0, pattern with an occurrence whose backward walk ends on the last sample in suffix-array order"),
 "C06-ssa-load-sample-count": ("C06", "SSA::load reads n/s+1 suffix samples while save writes (n+1)/s+1", "FMINDEX with sampling s > 0 and (n+1) mod s == 0; the loader then stops 4 bytes short, everything after the samples is misaligned (locate fails, second image of a stream unreadable)"),
 "C07-pfc-growth-check": ("C07", "PFC textStrings growth check tightened to len+1 bytes", "PFC/RPFC; an internal string without shared prefix whose end lands exactly on the reservation boundary (32768*bucket*2^k), or any reduced MEMALLOC; one byte written past the buffer, answers stay correct"),
 "C08-dacvls-load-tamcode": ("C08", "DAC_VLS::load keeps tamCode in a local, the member stays 0", "RPDAC / HASHRPDAC / HASHRPDACBlocks; only when an object obtained from load() is saved again (truncated, misaligned image); the loaded object itself answers correctly"),
 "C09-blocks-completion-order": ("C09", "block tasks store their dictionary at parts[parts_done++] (completion order) instead of the reserved index", "HASHRPDACBlocks with >= 2 blocks and >= 2 threads and an interleaving in which a later block finishes before an earlier one"),
 "C10b-pool-exactly-once": ("C10", "second pool change written by a sub-agent (exactly-once clause)", "see agent_README.txt"),
 "C11-repair-global-counter": ("C11", "global counter incremented without synchronisation in Dictionary::insertRule", ">= 2 blocks built by >= 2 threads; results unchanged, visible to ThreadSanitizer only"),
 "C12-pfc-extract-pow2": ("C12", "PFC extract computes the in-bucket position with & (bucketsize-1)", "PFC with a bucket size that is not a power of two (3, 5, 6, 7, ...)"),
 "C13-fmindex-duplicates-iterator": ("C13", "IteratorDictIDDuplicates stops collapsing duplicates one entry early", "FMINDEX locateSubstr when the matching member with the largest ID contains the pattern at least twice"),
 "C14-pfc-last-miss-memo": ("C14", "PFC locate remembers (bucket, length) of the last failed in-bucket scan and answers NORESULT from the memo", "one long-lived PFC object: a failed locate that scanned a bucket, then a locate of a present non-header string of the same bucket with the same length"),
 "C15-blocks-maxlength-blockhead": ("C15", "HASHRPDACBlocks does not count the first string of a block toward maxlength", "HASHRPDACBlocks; every string of maximal length is the first string of a block (e.g. the smallest string is the longest, or it follows a cut)"),
 "C16-hashrpdac-extractrank": ("C16", "HASHRPDAC extractRank returns extract(rank) instead of NULL", "HASHRPDAC only, extractRank with a rank in [1,n]"),
 "C17-logseq-straddle-mask": ("C17", "LogSequence set_field clears one bit too many in the second word of a straddling field", "width not dividing 64, a straddling position written after its right neighbour already holds an odd value"),
 "C18-hutucker-tiebreak": ("C18", "HuTucker findCompatibleNode prefers the right partner on equal weights", "Hu-Tucker only; specific small tie patterns such as adjacent counts 2 2 1 2 1 among heavier neighbours (not hit by ~4000 random vectors)"),
 "C19-rg-load-words": ("C19", "BitSequenceRG::load computes the word count with uint_len(n,1)", "BitSequenceRG after save/load, n a multiple of 32, n >= 32*factor, vector not all-zero"),
 "C20-repair-no-purge": ("C20", "IRePair::prepare no longer purges frequency-1 pairs from the heap", "no non-terminator pair occurs twice and the first string has one symbol: the first pair (x,0) becomes a rule"),
 "W2_C02_rpdac_id32": ("C02", "RPDAC extract narrows the ID to 32 bits before the range test", "RPDAC only; an ID m*2^32+k with m >= 1 and 1 <= k <= n (2^32+1 ...) returns member k instead of NULL; 0, n+1, 2^32, SIZE_MAX stay correct"),
 "W2_C04_rpdac_last": ("C04", "RPDAC locatePrefix starts the right-limit search with the exclusive bound at the last member", "RPDAC only; the last member of the dictionary matches the pattern together with at least one other member"),
 "W2_C06_xbw_overread": ("C06", "XBW loader reads the last bitmap with (nodes+1)/32+2 words instead of nodes/32+2", "XBW only; trie node count = 31 mod 32 (about one input set in 32); all answers stay right, only the stream position after load / a following image shows it"),
 "W2_C09_unlocked_pushback": ("C09", "producer reserves the block slot (parts.push_back) without the mutex the workers store under", "a worker finishes a block while the producer's push_back is reallocating the vector: the store goes to the old buffer and the block stays null; needs hundreds of blocks under real threads (atomic under a scheduler that pre-empts at synchronisation calls only)"),
 "W2_C10_stop_idle_notify": ("C10", "stop_all_workers samples queue.empty() before setting the stop flags and notifies only if it was empty", "stop called while a task is still queued; every worker goes to sleep between the sample and the flags: wait_workers never returns"),
 "W2_C12_hashbdh_load": ("C12", "HashBdh::load compacts one cell too few", "HASHRPF / HASHHF loaded with hash representation 2 and n >= 2: the member with ID n is not found and extract(n) returns string 1; representations 1 and 3 unaffected"),
 "W2_C13_blocks_single": ("C13", "IteratorDictStringHRPDACBlocks advances to the next block with a modulo test", "HASHRPDACBlocks extractTable when a block other than the last holds exactly one string (cut size below a string length): the scan ends there"),
 "W2_C14_rpfc_shared_buf": ("C14", "IteratorDictStringRPFC takes its decode buffer from a process-wide pool keyed by maxlength", "two live RPFC iterators of dictionaries with the same maxlength drained in staggered / different order: shared-prefix bytes come from the other iterator; one iterator alone is right"),
 "W2_C17_vbyte5": ("C17", "VByte::decode stops after sizeof(uint)=4 bytes", "values >= 2^28 (five-byte codes): top four bits dropped and byte counts disagree"),
 "W2_C19_rrr_rank": ("C19", "BitSequenceRRR::rank1 picks the sampled superblock of i+1", "BitSequenceRRR, position i with (i+1) mod (15*sample_rate) == 0 and a one in the last block of that superblock: rank1/rank0 wrong (select asserts)"),
 "C10c_addtask_defer_lock": ("C10", "WorkerPool::add_task no longer takes shared_mutex (std::defer_lock)", "a worker that has tested its predicate but not yet blocked when the producer pushes and notifies: the wake-up is lost; visible only when the next add / the stop depends on that task finishing (protocols 1, 2); note: the repository's own tests keep a residual flake rate of about 1/1000 with it"),
 "W3_C01_rpdac_prefix_compare": ("C01", "RPDAC locate uses the prefix comparator (query exhausted = match)", "RPDAC; a member that is a proper prefix of another member which the binary search reaches first"),
 "W3_C03_rpfc_second_string": ("C03", "RPFC locate compares the 2nd string of a bucket without its terminator", "RPFC, bucket size >= 3; s proper prefix of t, s the 2nd string of its bucket and t later in the same bucket: locate(t) = ID of s"),
 "W3_C05_ssa_locate_interval": ("C05", "SSA::locate stops the backward search when the interval has one entry", "FMINDEX substring search; an absent pattern of >= 2 bytes with a proper suffix that occurs exactly once: one false positive"),
 "W3_C07_fmindex_locate_buf": ("C07", "FMINDEX locate sizes its pattern copy by maxlength instead of the query length", "FMINDEX locate with a query at least 2 bytes longer than the longest member: heap write overflow (answers unchanged)"),
 "W3_C08_fmindex_save_mutates": ("C08", "FMINDEX save frees the separators bitmap and zeroes BWTsampling after writing", "FMINDEX built with sampling > 0; after any save, substring queries return NULL; images stay identical"),
 "W3_C11_nearest_prime_static": ("C11", "nearest_prime caches its last answer in an unsynchronised function-local static", ">= 2 blocks built by >= 2 workers, one of them needing a hash size >= 62 (>= 50 strings in a block at overhead 25); results stay right (confirmed by us with a TSan build of the agent's demo: 0 reports unmodified, 1 with the change)"),
 "W3_C15_fmindex_load_clamp": ("C15", "FMINDEX::load clamps maxlength with the wrong constant", "FMINDEX after save/load with exactly one string: maxLength = longest-1"),
 "W3_C16_rpdac_accepts_hashrpdac": ("C16", "RPDAC::load accepts tag HASHRPDAC", "RPDAC's own loader given a HASHRPDAC image (or an image re-tagged 124): returns a garbage object instead of NULL"),
 "W3_C18_statcoder_window": ("C18", "StatCoder::encodeSymbol left-aligns the codeword once in a 32-bit window", "codewords >= 26 bits (Fibonacci-like counts over >= 22 symbols) starting at a bit offset with bits+offset > 32: trailing bits written as zeros"),
 "W3_C20_getbits": ("C20", "RePair::getBits returns bits(rules+terminals-2)", "largest identifier an exact power of two (or rules+terminals = 2)"),
 "W4_C01_dacvls_uchar_len": ("C01", "DAC_VLS::access keeps the symbol count in a uchar", "RPDAC / HASHRPDAC / HASHRPDACBlocks extract of a member whose Re-Pair compressed form has >= 256 symbols (>= 256 bytes of poorly compressible text): a proper prefix is returned"),
 "W4_C02_hashrpf_compare_len": ("C02", "RePair::extractStringAndCompareRP compares only the query's length (do/while)", "HASHRPF locate of an absent proper prefix of a member (or member + the closing-symbol byte) whose probe sequence reaches that member's cell and whose end falls on a Re-Pair symbol boundary"),
 "W4_C04_xbw_extractprefix_plus1": ("C04", "IteratorDictStringXBW::idToStr base case uses cnt > 1", "XBW extractPrefix when a member is the pattern plus exactly one byte: that member comes back truncated; locatePrefix stays right"),
 "W4_C06_logseq_load_cleanup": ("C06", "LogSequence load constructor masks the 'unused' bits of the last word when numbits > 16", "any packed array with fields wider than 16 bits whose bit count is an exact multiple of 64: the full last word is zeroed (PFC family: > 64 KB of coded text and (buckets+2)*bits % 64 == 0; grammars >= 65536 symbols)"),
 "W4_C13_pfc_iter_length": ("C13", "IteratorDictStringPFC derives the length from the bytes consumed assuming a 1-byte VByte", "PFC extractTable / extractPrefix of a non-header string sharing >= 128 bytes with its predecessor: reported length = strlen + 1"),
 "W4_C14_hashrpf_terminator": ("C14", "extractStringAndCompareRP restores the caller's terminator on all paths but one", "HASHRPF locate of a pattern that is a proper prefix of the string in the last probed cell: the byte after the pattern stays overwritten with the closing symbol; answers unchanged"),
 "W4_C17_dacvls_last_single": ("C17", "DAC_VLS constructor loops stop one element early", "a list whose LAST sequence has exactly one symbol: it is dropped (getListLength n-1, access(n) returns another sequence's tail)"),
 "W4_C19_rg_select0": ("C19", "BitSequenceRG::select0 superblock search uses <=", "select0(j) when j equals the number of zeros before a superblock boundary and the last bit of that superblock is 1 (vectors >= 32*factor bits); also WaveletTree select through it"),
 "W5_C03_pfc_full_last_bucket": ("C03", "PFC locate treats a completely full last bucket as empty (the sub-agent re-invented the first-wave change C01-pfc-full-last-bucket; kept as a cross-check of C03 against it)", "PFC; n an exact multiple of the bucket size; a non-header string of the last bucket: locate gives 0, so s<t but locate(s) > locate(t)"),
 "W5_C05_xbw_dup_strings": ("C05", "IteratorDictStringXBWDuplicates skips repeated results with an off-by-one bound", "XBW extractSubstr when the matching member with the greatest XBW ID contains the pattern at least twice: that string is delivered twice (the set of strings stays right, locateSubstr stays right)"),
 "W5_C08_logseq_ctor_padding": ("C08", "LogSequence(vector, numbits) zeroes only the completely used words", "PFC / RPFC blStrings and HASHRPF Cls whose bit count leaves 1..56 bits in the last word: the padding bits of the image are heap garbage; every answer stays right"),
 "W5_C12_fmindex_sample_count": ("C12", "FMINDEX build_ssa converts (len-1)/step+1 suffix samples into IDs", "a BWT sampling step that divides the indexed text length (always for step 1): the last sample keeps its raw text position and substring search reports it as an ID"),
 "W5_C15_rpfc_maxlength_plus2": ("C15", "RPFC constructor raises maxlength to the byte length of an internal string's coded run", "RPFC; a string of maximal length that is not a bucket header and shares no prefix with its predecessor: maxLength = longest+2"),
 "W5_C16_fmindex_unsupported_mutates": ("C16", "FMINDEX extractSubstr without sampling clears the alphabet flag of the pattern's last byte before returning NULL", "FMINDEX built with BWT sampling 0; extractSubstr(p), then locate / locatePrefix / extractPrefix of anything containing p's last byte: no match"),
 "W5_C18_huffman_depth1": ("C18", "Huffman encodeHuff stops walking up at level 2", "a frequency vector whose most frequent symbol gets a 1-bit codeword (>= 2/5 of the mass): it is written as 10, 11 is unused: Kraft sum 3/4"),
 "W5_C20_rule_array_growth": ("C20", "Dictionary::insertRule clears the new part of the rule array starting one entry too early", "inputs on which Re-Pair creates more than 256 rules: rule 255 (then 340, 453, ...) becomes (0,0)"),
 "W6_C12_fmindex_last_sample": ("C12", "FMINDEX build_ssa converts (len+1)/step suffix samples into member IDs instead of (len+1)/step+1 (the same site as the first wave's C05 seed, written independently against the tuning-parameter clause)", "FMINDEX with BWT sampling step >= 2 not dividing len+1; a substring query whose backward walk ends on the last sample in suffix-array order returns a text offset instead of an ID; step 1, locate, extract and prefix search unaffected"),
 "W6_C13_xbw_dup_skip_one": ("C13", "IteratorDictIDXBWDuplicates::next skips at most one repeated entry of the sorted result array", "XBW locateSubstr with a pattern that occurs three or more times inside one member (a in banana); every other kind and iterator unaffected"),
 "W6_C19_wtnoptrs_load_height": ("C19", "WaveletTreeNoptrs::load rejects an image whose height differs from bits(max_v), forgetting that the constructors use max(1, bits(max_v))", "WaveletTreeNoptrs over a non-empty sequence whose only symbol is 0 (max_v = 0, height 1), after save/load: load returns NULL; all answers before save and every other sequence unaffected"),
 "W6_C14_hashrpdac_lookup_memo": ("C14", "HASHRPDAC locate memoises the last lookup resolved by double hashing under the key (home slot, length) and answers later lookups with that key from the memo", "HASHRPDAC (and HASHRPDACBlocks parts); on one long-lived object a locate of a member that is not in its home slot, then a locate of a different string (member or not) with the same length and the same home slot: it gets the first member's ID; a fresh object or another query order answers correctly (replacement for a first, declined change - see 8.5)"),
}
for d in sorted(os.listdir(S)):
    p = os.path.join(S, d)
    if not os.path.isdir(p) or d not in T:
        continue
    auto = {}
    try:
        auto = json.load(open(os.path.join(p, "meta.auto.json")))
    except OSError:
        pass
    prop, what, needs = T[d]
    extra = {}
    try:
        extra = json.load(open(os.path.join(p, "meta.extra.json")))
    except OSError:
        pass
    caught = [l for l in auto.get("checks_run", []) if "violations=" in l and "violations=0" not in l]
    meta = {"id": d, "breaks_property": prop, "change": what, "needs_to_manifest": needs,
            "written_by": "independent sub-agent given only the property text and a scratch worktree (demo + README: demo.cpp, agent_README.txt)",
            "confirmed_by_us": auto.get("confirmed", {}), "how_confirmed": auto.get("confirm_commands", ""),
            "checks_run": auto.get("checks_run", []), "caught_by_quick_tier": bool(caught)}
    meta.update(extra)
    json.dump(meta, open(os.path.join(p, "meta.json"), "w"), indent=1)
    print(d, prop, "caught" if meta["caught_by_quick_tier"] else "NOT CAUGHT / not run")
