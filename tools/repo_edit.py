#!/usr/bin/env python3
"""Development aid: exact-text replacement in a /repo file that respects the file's
line terminators (many sources there use CRLF).  usage: repo_edit.py FILE <<< JSON [[old,new],...]"""
import json, sys
path = sys.argv[1]
pairs = json.load(sys.stdin)
data = open(path, 'rb').read()
nl = b'\r\n' if b'\r\n' in data else b'\n'
for old, new in pairs:
    o = old.encode().replace(b'\n', nl)
    n = new.encode().replace(b'\n', nl)
    if data.count(o) != 1:
        sys.exit("pattern occurs %d times in %s: %r" % (data.count(o), path, old[:80]))
    data = data.replace(o, n)
open(path, 'wb').write(data)
