#!/bin/bash
# usage: tools/confirm_seed.sh <seed-id> <agent-worktree> "<props to run>"
# Confirms a seeded change independently in a scratch worktree (outside /repo and /verif), stores it under
# /verif/seeded/<id>/ and runs the given checks against it.
set -u
id=$1; src=$2; props=$3
S=/verif/seeded/$id
mkdir -p $S
cp $src/SEEDED/patch.diff $S/patch.diff
cp $src/SEEDED/demo.cpp $S/demo.cpp 2>/dev/null
cp $src/SEEDED/README.txt $S/agent_README.txt 2>/dev/null
W=/tmp/cs_$id
git -C /repo worktree remove --force $W 2>/dev/null; rm -rf $W
git -C /repo worktree add -q $W HEAD || exit 3
log=$S/confirm.log; : > $log
build() { ( cd $W && cmake -G Ninja -B _build -DCMAKE_BUILD_TYPE=Release >/dev/null 2>&1 && cmake --build _build -j16 >/dev/null 2>&1 ); }
demo() { ( cd $W && g++ -std=gnu++17 -O1 -w -fno-access-control -I. -Ilibcds/includes $S/demo.cpp _build/libCSD.a _build/libcds/libcds.a -lpthread -o /tmp/cs_demo_$id 2>>$log && timeout 600 /tmp/cs_demo_$id >>$log 2>&1 ); }
build || { echo "baseline build failed" | tee -a $log; }
echo "== demo on unmodified tree" >> $log; demo; base_rc=$?
( cd $W && git apply $S/patch.diff ) || { echo "PATCH DOES NOT APPLY" | tee -a $log; }
build; build_rc=$?
echo "== ctest with the change" >> $log
tests_ok=1
for i in 1 2 3; do ( cd $W && ctest --test-dir _build -j8 --timeout 900 >>$log 2>&1 ) || tests_ok=0; done
echo "== demo with the change" >> $log; demo; mut_rc=$?
rm -f /tmp/cs_demo_$id
git -C /repo worktree remove --force $W; rm -rf $W
echo "confirm $id: baseline demo rc=$base_rc, build with change rc=$build_rc, ctest x3 ok=$tests_ok, demo with change rc=$mut_rc"
checks=""
for p in $props; do
  r=$(timeout 3000 /verif/tools/mutant.sh $S/patch.diff "$p" 2>&1)
  echo "$r" | head -3 | cut -c1-400
  checks="$checks$(echo "$r" | head -1 | cut -c1-300)\n"
done
printf "%b" "$checks" > $S/checks.txt
python3 - <<PY
import json
json.dump({"id": "$id", "confirmed": {"demo_rc_unmodified": $base_rc, "build_rc_with_change": $build_rc, "ctest_3x_pass_with_change": bool($tests_ok), "demo_rc_with_change": $mut_rc},
           "confirm_commands": "tools/confirm_seed.sh $id $src '$props' (scratch worktree /tmp/cs_$id, removed afterwards)",
           "checks_run": open("$S/checks.txt").read().splitlines()}, open("$S/meta.auto.json", "w"), indent=1)
PY
