#!/bin/bash
# usage: tools/sweep.sh "<seeds>" "<props>" [tier]   -- runs the checks and prints one line per run
tier=${3:-quick}
for seed in $1; do
  for p in $2; do
    out=$(VERIF_SEED=$seed timeout 7200 python3 tools/verif.py check $p --tier $tier 2>&1)
    rc=$?
    echo "seed=$seed $p rc=$rc $(echo "$out" | grep '^SUMMARY' | cut -c1-160)"
    echo "$out" | grep '^VIOLATION\|^SELFTEST\|^BUILD' | cut -c1-400
  done
done
