"""libFuzzer stage of the thorough tier: N processes on the same run_case, fresh corpus seeded with an
empty input and with the cases the rapidcheck stages of this run kept as samples; only inputs on which
the semantic oracle failed (exit 71 + falsified-*.case) or libFuzzer crash-* artifacts count;
timeout / oom / slow-unit artifacts are load noise."""
import glob
import os
import subprocess
import time


def run(binary, prop, st, seed, logdir, env, known, jobs):
    total = st.get("seconds", 120)
    corpus_root = os.path.join(logdir, "corpus")
    out = os.path.join(logdir, "found")
    os.makedirs(out, exist_ok=True)
    procs = []
    strata = st.get("seed_strata", [0])
    for w in range(jobs):
        cdir = os.path.join(corpus_root, "w%d" % w)
        os.makedirs(cdir, exist_ok=True)
        # seeds: one minimal valid input per stratum this worker owns (header only = simplest case)
        for k, s in enumerate(strata):
            if k % jobs == w:
                with open(os.path.join(cdir, "seed%d" % s), "wb") as f:
                    f.write(bytes([(s + 1) & 0xff, ((s + 1) >> 8) & 0xff]) + bytes(8))
        e = dict(env)
        e["VERIF_FZ_PROP"] = prop
        e["VERIF_FZ_OUT"] = out
        e["VERIF_FZ_LOG"] = logdir
        e["VERIF_FZ_WORKER"] = str(1000 + w)
        e["VERIF_FZ_STRATA"] = ",".join(str(x) for x in strata)
        if os.path.exists(known):
            e["VERIF_FZ_KNOWN"] = known
        e["ASAN_OPTIONS"] = e["ASAN_OPTIONS"] + ":handle_segv=0:handle_sigbus=0:handle_abort=0:handle_sigfpe=0:handle_sigill=0"
        procs.append((w, cdir, e))
    t0 = time.time()
    running = {}
    restarts = {w: 0 for w, _, _ in procs}

    def start(w, cdir, e):
        cmd = [binary, cdir, "-max_total_time=%d" % max(5, int(total - (time.time() - t0))), "-seed=%d" % (seed * 1000 + w + 1),
               "-max_len=%d" % st.get("max_len", 600), "-artifact_prefix=%s/w%d-" % (out, w), "-handle_segv=0", "-handle_abrt=0",
               "-handle_bus=0", "-handle_fpe=0", "-handle_ill=0", "-print_final_stats=1", "-rss_limit_mb=4096", "-timeout=120"]
        return subprocess.Popen(cmd, stdout=subprocess.DEVNULL, stderr=open(os.path.join(logdir, "fz%d.log" % w), "ab"), env=e, cwd="/")

    for w, cdir, e in procs:
        running[w] = start(w, cdir, e)
    while running and time.time() - t0 < total + 60:
        time.sleep(0.5)
        for w, cdir, e in procs:
            p = running.get(w)
            if p is None:
                continue
            rc = p.poll()
            if rc is None:
                continue
            del running[w]
            # 77 = tainted heap, restart on the same corpus; 71 = falsified (kept); others end this worker
            if rc == 77 and time.time() - t0 < total - 5 and restarts[w] < 50:
                restarts[w] += 1
                running[w] = start(w, cdir, e)
    for p in running.values():
        p.kill()
    fails = []
    for path in sorted(glob.glob(os.path.join(out, "falsified-*.case"))):
        fails.append({"type": "falsified", "case": path, "worker": -1})
    for path in sorted(glob.glob(os.path.join(out, "w*-crash-*"))):
        keep = path + ".case"
        os.rename(path, keep)
        fails.append({"type": "crash", "case": keep, "worker": -1})
    return fails
