#!/usr/bin/env python3
"""Driver of the libCSD property checks (see DESIGN.md).

  verif.py setup
  verif.py check <ID> [--tier quick|thorough]
  verif.py replay <ID> <file>
"""
import glob
import hashlib
import json
import os
import shutil
import signal
import subprocess
import sys
import time

sys.path.insert(0, os.path.dirname(os.path.abspath(__file__)))
import vbuild  # noqa: E402
import props  # noqa: E402

VERIF = vbuild.VERIF
KNOWN = os.path.join(VERIF, "KNOWN_FINDINGS.txt")
JOBS = vbuild.JOBS

ASAN_OPTIONS = ("halt_on_error=0:detect_leaks=0:symbolize=1:alloc_dealloc_mismatch=0:new_delete_type_mismatch=0:"
                "detect_odr_violation=0:allocator_may_return_null=1:max_allocation_size_mb=4096:strict_memcmp=0")


def base_env():
    env = dict(os.environ)
    env["ASAN_OPTIONS"] = ASAN_OPTIONS
    env["UBSAN_OPTIONS"] = "print_stacktrace=0"
    env["TSAN_OPTIONS"] = "halt_on_error=0:report_signal_unsafe=0:second_deadlock_stack=1"
    env["ASAN_SYMBOLIZER_PATH"] = shutil.which("llvm-symbolizer") or "/usr/bin/llvm-symbolizer"
    env["GLIBC_TUNABLES"] = "glibc.malloc.tcache_count=0"
    env.pop("RC_PARAMS", None)
    return env


def big_stack():
    """preexec hook: sanitizer frames are several times larger than the library's own, so recursion that is
    linear in a string length (XBW's trie insertion: one frame per byte) would overflow the default 8 MB
    stack on 16-50 KB strings although the uninstrumented library handles them; 1 GiB removes that artefact"""
    import resource
    soft, hard = resource.getrlimit(resource.RLIMIT_STACK)
    want = 1 << 30
    if hard != resource.RLIM_INFINITY and hard < want:
        want = hard
    resource.setrlimit(resource.RLIMIT_STACK, (want, hard))
    # harness processes run in their own sessions (so that a stalled worker can be killed together with the
    # child it forked): make sure they still die with the driver
    try:
        import ctypes
        ctypes.CDLL("libc.so.6", use_errno=True).prctl(1, 9, 0, 0, 0)   # PR_SET_PDEATHSIG, SIGKILL
    except Exception:
        pass


def group_cpu_seconds(pgid):
    """user+system CPU seconds consumed so far by the live processes of a process group (from /proc)"""
    tot = 0.0
    tick = os.sysconf("SC_CLK_TCK")
    for d in os.listdir("/proc"):
        if not d.isdigit():
            continue
        try:
            f = open("/proc/%s/stat" % d).read()
            rest = f[f.rindex(")") + 2:].split()
            if int(rest[2]) == pgid:          # field 5 = pgrp
                tot += (int(rest[11]) + int(rest[12])) / tick   # fields 14, 15 = utime, stime
        except (OSError, ValueError, IndexError):
            pass
    return tot


def fnv64(data):
    h = 1469598103934665603
    for b in data:
        h ^= b
        h = (h * 1099511628211) & 0xFFFFFFFFFFFFFFFF
    return h


def mix_seed(seed, prop, worker, attempt=0):
    h = hashlib.sha256(("%d/%s/%d/%d" % (seed, prop, worker, attempt)).encode()).digest()
    v = int.from_bytes(h[:7], "little")
    return v or 1


# ------------------------------------------------------------------ known findings
def parse_findings():
    fs, fixed = [], []
    try:
        lines = open(KNOWN).read().splitlines()
    except OSError:
        return fs, fixed
    for line in lines:
        if line.startswith("finding:"):
            rest = line[8:]
            desc = ""
            if "::" in rest:
                rest, desc = rest.split("::", 1)
            f = {"desc": desc.strip(), "skip": False, "where": ""}
            for tok in rest.split():
                if tok == "skip":
                    f["skip"] = True
                elif "=" in tok:
                    k, v = tok.split("=", 1)
                    f[{"property": "prop"}.get(k, k)] = v
            fs.append(f)
        elif line.startswith("fixed:"):
            fixed.append(line)
    return fs, fixed


# ------------------------------------------------------------------ replay
def run_replay(binary, prop, path, known=True, extra=None, timeout=300, trace=False, env_extra=None):
    """Returns dict: rc, json (parsed result or None), stderr, crashed, sig"""
    cmd = [binary, "--prop", prop, "--replay", path]
    if known and os.path.exists(KNOWN):
        cmd += ["--known", KNOWN]
    if trace:
        cmd += ["--trace"]
    if extra:
        cmd += extra
    env = base_env()
    if os.environ.get("VERIF_REPLAY_NOCATCH"):
        env["VERIF_NOCATCH"] = "1"
    if env_extra:
        env.update(env_extra)
    # the replay runs in its own process group (the schedule families fork a child per case): on a time-out the
    # whole group is examined and killed
    proc = subprocess.Popen(cmd, stdout=subprocess.PIPE, stderr=subprocess.PIPE, env=env, cwd="/", preexec_fn=big_stack, start_new_session=True)
    try:
        out_b, err_b = proc.communicate(timeout=timeout)
    except subprocess.TimeoutExpired:
        # blocked (no CPU used) or merely slow (CPU-bound)?  Only the first is a hang; slow is not wrong.
        cpu = group_cpu_seconds(proc.pid)
        try:
            os.killpg(proc.pid, signal.SIGKILL)
        except OSError:
            pass
        out_b, err_b = proc.communicate()
        return {"rc": None, "json": None, "stderr": (err_b or b"").decode("latin1"), "crashed": False, "timeout": True, "sig": "hang",
                "cpu_bound": cpu > 0.3 * timeout}

    class _R:
        pass
    r = _R()
    r.stdout, r.stderr, r.returncode = out_b, err_b, proc.returncode
    out = r.stdout.decode("latin1")
    err = r.stderr.decode("latin1")
    js = None
    for line in out.splitlines():
        if line.startswith("{"):
            try:
                js = json.loads(line)
            except ValueError:
                pass
    crashed = js is None
    sig = ""
    if crashed:
        sig = crash_signature(r.returncode, err)
    return {"rc": r.returncode, "json": js, "stderr": err, "crashed": crashed, "timeout": False, "sig": sig}


def crash_signature(rc, err):
    cls = "exit%d" % rc
    if rc is not None and rc < 0:
        cls = "signal%d" % (-rc)
    where = "?"
    lines = err.splitlines()
    op = ""
    last_ev = None
    for l in lines:
        if l.startswith("OP "):
            op = l[3:].strip()
        elif l.startswith("EVENT C07 asan/"):
            last_ev = l.split()[2]
        elif "runtime error:" in l and where == "?":
            where = "ubsan:" + l.split(": runtime error")[0].split("/")[-1]
        elif "Assertion" in l and "failed" in l:
            cls = "assert"
            where = l.split(":")[0].split("/")[-1] + ":" + (l.split(":")[1] if l.count(":") > 1 else "")
    if last_ev:
        # the sanitizer callback ran before the process died: asan/<class>/<rw>/<function>
        parts = last_ev.split("/")
        cls = parts[1] if len(parts) > 1 else cls
        where = parts[3] if len(parts) > 3 else where
    return "crash/%s/%s/%s" % (cls, where, op.replace(" ", ","))


# ------------------------------------------------------------------ minimisation of hard crashes (ddmin on bytes)
def minimise_crash(binary, prop, data, sig_class, budget_s=40, extra=None):
    t0 = time.time()
    tmp = os.path.join(RUN_DIR, "min.case")
    slow = [False]

    def fails(b):
        if slow[0]:
            return False
        with open(tmp, "wb") as f:
            f.write(b)
        t1 = time.time()
        r = run_replay(binary, prop, tmp, trace=True, extra=extra, timeout=20)
        if time.time() - t1 > 5:
            slow[0] = True      # replays this slow: no minimisation
        return r["crashed"] and r["sig"].split("/")[1:3] == sig_class

    best = data
    chunk = max(1, len(best) // 2)
    while chunk >= 1 and time.time() - t0 < budget_s:
        i = 0
        changed = False
        while i < len(best) and time.time() - t0 < budget_s:
            cand = best[:i] + best[i + chunk:]
            if fails(cand):
                best = cand
                changed = True
            else:
                i += chunk
        if not changed:
            chunk //= 2
    # lower bytes
    i = 0
    while i < len(best) and time.time() - t0 < budget_s:
        if best[i] != 0:
            cand = best[:i] + b"\0" + best[i + 1:]
            if fails(cand):
                best = cand
        i += 1
    return best


# ------------------------------------------------------------------ campaign
RUN_DIR = None
TIMES = []
T_PRE = [0]


class Worker:
    def __init__(self, wid, binary, prop, stratum, cases, size, lenscale, seed, thorough, param, logdir):
        self.wid, self.binary, self.prop, self.stratum = wid, binary, prop, stratum
        self.cases, self.size, self.lenscale, self.seed = cases, size, lenscale, seed
        self.thorough, self.param, self.logdir = thorough, param, logdir
        self.attempt = 0
        self.proc = None
        self.done_cases = 0
        self.failures = []   # (kind, path)
        self.started = 0

    def start(self):
        remaining = self.cases - self.done_cases
        env = base_env()
        env["RC_PARAMS"] = "seed=%d max_success=%d max_size=%d max_discard_ratio=100" % (
            mix_seed(self.seed, self.prop, self.wid, self.attempt), remaining, self.size)
        env["VERIF_LEN_SCALE"] = str(self.lenscale)
        cmd = [self.binary, "--prop", self.prop, "--stratum", str(self.stratum), "--log", self.logdir,
               "--worker", str(self.wid)]
        if os.path.exists(KNOWN):
            cmd += ["--known", KNOWN]
        if self.thorough:
            cmd += ["--thorough"]
        if self.param:
            cmd += ["--param", self.param]
        avoid = os.path.join(self.logdir, "w%d.avoid" % self.wid)
        if os.path.exists(avoid):
            cmd += ["--avoid", avoid]
        self.errpath = os.path.join(self.logdir, "w%d.stderr" % self.wid)
        self.proc = subprocess.Popen(cmd, stdout=subprocess.DEVNULL, stderr=open(self.errpath, "ab"), env=env, cwd="/", preexec_fn=big_stack, start_new_session=True)
        self.started = time.time()

    def count_cases(self):
        try:
            with open(os.path.join(self.logdir, "w%d.cases" % self.wid), "rb") as f:
                return sum(1 for _ in f)
        except OSError:
            return 0


def run_campaign(binary, prop, plan, lenscale, seed, thorough, param, logdir, max_restarts=6,
                 stall_s=300, sem=None):
    """plan = [(stratum, cases, max_size)].  Runs one worker per entry, JOBS at a time.  Returns list of
    failure records {type: 'falsified'|'crash'|'hang', case: path, worker: id}"""
    pending = [Worker(i, binary, prop, st, cases, size, lenscale, seed, thorough, (param % i) if "%d" in (param or "") else param, logdir)
               for i, (st, cases, size) in enumerate(plan)]
    running, failures = [], []
    lost = 0
    while pending or running:
        while pending and len(running) < JOBS:
            # stages of one check run side by side: a shared semaphore keeps the total at JOBS processes
            if sem is not None and not sem.acquire(blocking=False):
                break
            w = pending.pop(0)
            w.start()
            running.append(w)
        time.sleep(0.05)
        for w in list(running):
            rc = w.proc.poll()
            if rc is None:
                if time.time() - w.started > stall_s:
                    n = w.count_cases()
                    if n == w.done_cases:   # no progress for stall_s seconds
                        try:
                            os.killpg(w.proc.pid, signal.SIGKILL)   # the worker and the child it forked for the case
                        except OSError:
                            w.proc.kill()
                        w.proc.wait()
                        cur = os.path.join(logdir, "w%d.cur" % w.wid)
                        keep = os.path.join(logdir, "w%d.hang%d.case" % (w.wid, w.attempt))
                        if os.path.exists(cur):
                            shutil.copy(cur, keep)
                            failures.append({"type": "hang", "case": keep, "worker": w.wid})
                        running.remove(w)
                        if sem is not None:
                            sem.release()
                    else:
                        w.done_cases = n
                        w.started = time.time()
                continue
            running.remove(w)
            if sem is not None:
                sem.release()
            TIMES.append((time.time() - w.started, w.stratum, w.cases))
            fail_case = os.path.join(logdir, "w%d.fail.case" % w.wid)
            if rc == 0:
                continue
            if rc == 1 and os.path.exists(fail_case):
                keep = os.path.join(logdir, "w%d.falsified%d.case" % (w.wid, w.attempt))
                os.rename(fail_case, keep)
                js = os.path.join(logdir, "w%d.fail.json" % w.wid)
                if os.path.exists(js):
                    os.rename(js, keep + ".json")
                failures.append({"type": "falsified", "case": keep, "worker": w.wid})
                continue   # rapidcheck stops at the first failure; the violation is reported
            # anything else: the process died (signal, sanitizer abort) or asked for recycling (77: tainted heap)
            cur = os.path.join(logdir, "w%d.cur" % w.wid)
            if rc != 77 and os.path.exists(cur):
                keep = os.path.join(logdir, "w%d.crash%d.case" % (w.wid, w.attempt))
                shutil.copy(cur, keep)
                with open(os.path.join(logdir, "w%d.avoid" % w.wid), "a") as af:
                    af.write("%x\n" % fnv64(open(cur, "rb").read()))
                failures.append({"type": "crash", "case": keep, "worker": w.wid, "rc": rc})
            w.done_cases = w.count_cases()
            w.attempt += 1
            if w.attempt <= max_restarts and w.done_cases < w.cases:
                if sem is not None:
                    sem.acquire()
                w.start()
                running.append(w)
            else:
                lost += max(0, w.cases - w.done_cases)
    return failures, lost


# ------------------------------------------------------------------ log merge
def merge_logs(logdir):
    ev = 0
    distinct = set()
    by_kind = {}
    labels = {}
    counters = {}
    known = {}
    inconc = {}
    tainted = excluded = 0
    for path in glob.glob(os.path.join(logdir, "w*.cases")):
        for line in open(path, errors="replace"):
            t = line.split()
            if len(t) < 9:
                continue
            ev += 1
            h, nt, conc, ta, kind, nrep, exc, lab, cnt = t[:9]
            k = by_kind.setdefault(kind, {"cases": 0, "conclusive": 0, "nontrivial": 0})
            k["cases"] += 1
            if conc == "1":
                k["conclusive"] += 1
            if ta == "1":
                tainted += 1
            excluded += int(exc)
            if nt == "1" and conc == "1" and ta == "0":
                if h not in distinct:
                    distinct.add(h)
                    k["nontrivial"] += 1
            if lab != "-":
                for x in lab.split(","):
                    labels[x] = labels.get(x, 0) + 1
            if cnt != "-":
                for x in cnt.split(","):
                    if "=" not in x:
                        continue
                    a, b = x.rsplit("=", 1)
                    try:
                        b = int(b)
                    except ValueError:
                        continue
                    if a.startswith("known:"):
                        known[a[6:]] = known.get(a[6:], 0) + b
                    elif a.startswith("inconclusive:"):
                        key = kind + ":" + a[13:]
                        inconc[key] = inconc.get(key, 0) + b
                    else:
                        counters[a] = counters.get(a, 0) + b
    samples = []
    for path in sorted(glob.glob(os.path.join(logdir, "w*.samples"))):
        for line in open(path, errors="replace"):
            line = line.strip()
            if line.startswith("{"):
                try:
                    samples.append(json.loads(line))
                except ValueError:
                    pass
    return {"evaluations": ev, "distinct_nontrivial": len(distinct), "by_kind": by_kind, "labels": labels,
            "counters": counters, "known_hits": known, "inconclusive": inconc, "tainted": tainted,
            "excluded_known": excluded, "samples": samples}


# ------------------------------------------------------------------ evidence
def validate_evidence(ev):
    req = ["property_id", "tier", "seed", "level", "coverage", "wall_s"]
    for k in req:
        if k not in ev:
            return "missing " + k
    c = ev["coverage"]
    if not isinstance(c.get("evaluations"), int) or c["evaluations"] < 1:
        return "evaluations"
    if not isinstance(c.get("distinct_nontrivial"), int) or c["distinct_nontrivial"] < 2:
        return "distinct_nontrivial < 2"
    if not isinstance(c.get("rule"), str) or not c.get("samples"):
        return "rule/samples"
    return None


def write_evidence(prop, tier, seed, cov, assumptions, wall, violations):
    ev = {"property_id": prop, "tier": tier, "seed": seed, "level": "exploration", "coverage": cov,
          "assumptions": assumptions, "wall_s": round(wall, 1), "violations": violations}
    evdir = os.path.join(VERIF, "evidence")
    if os.environ.get("VERIF_REPO"):   # sensitivity runs against a scratch copy never touch the real evidence
        evdir = os.path.join(vbuild.BUILD_ROOT, "evidence")
    os.makedirs(evdir, exist_ok=True)
    path = os.path.join(evdir, prop + ".json")
    with open(path + ".tmp", "w") as f:
        json.dump(ev, f, indent=1, ensure_ascii=True)
    os.replace(path + ".tmp", path)
    return validate_evidence(ev)


# ------------------------------------------------------------------ check
def check(prop, tier):
    global RUN_DIR
    t0 = time.time()
    seed = int(os.environ.get("VERIF_SEED", "1") or 1)
    spec = props.SPECS[prop]
    thorough = tier == "thorough"
    RUN_DIR = os.path.join(VERIF, ".run", "%s-%s-%d" % (prop, tier, os.getpid()))
    shutil.rmtree(RUN_DIR, ignore_errors=True)
    os.makedirs(RUN_DIR)
    ev_path = os.path.join(VERIF, "evidence", prop + ".json")
    if not os.environ.get("VERIF_REPO"):
        try:
            os.remove(ev_path)
        except OSError:
            pass
    violations = []     # (replay path, description)
    stage_of = {}       # replay path -> stage that produced it (written next to the replay file as <case>.stage)
    notes = []
    selftest_fail = []
    merged_all = {"evaluations": 0, "distinct_nontrivial": 0, "by_kind": {}, "labels": {}, "counters": {},
                  "known_hits": {}, "inconclusive": {}, "tainted": 0, "excluded_known": 0, "samples": []}
    engines = {}
    findings, _fixed = parse_findings()
    try:
        stages = spec["stages"](tier)
        names = sorted({st["binary"] for st in stages})
        try:
            bins = vbuild.build(names)
        except RuntimeError as e:
            print("BUILD-FAILED %s" % e)
            return 2

        # 1. committed regression cases (shrunk failures of repaired defects and of sensitivity mutants)
        reg = sorted(glob.glob(os.path.join(VERIF, "regress", prop, "*.case")))
        nreg = 0
        for path in reg:
            st = stage_for_case(stages, path)
            r = run_replay(bins[st["binary"]], prop, path, extra=stage_extra(st))
            nreg += 1
            if r["crashed"] or (r["json"] and r["json"]["reportable"] > 0):
                violations.append((path, "regression case fails: " + describe(r)))
        engines["regress_replay"] = nreg

        # 2. known findings of this property: still failing?
        for f in findings:
            if f.get("prop") != prop:
                if prop in f.get("also", "").split(","):
                    # recorded under another property; this property is broken by it on the same inputs,
                    # which are therefore excluded here too
                    print("KNOWN-FINDING: property=%s id=%s (recorded under %s) %s" % (prop, f.get("id"), f.get("prop"), f["desc"]))
                continue
            rp = os.path.join(VERIF, f.get("replay", ""))
            still = None
            if f.get("replay") and os.path.exists(rp):
                st = stage_for_case(stages, rp)
                r = run_replay(bins[st["binary"]], prop, rp, known=False, extra=stage_extra(st), timeout=300)
                still = r["crashed"] or r.get("timeout") or (r["json"] and r["json"]["reportable"] > 0)
            if still is False:
                notes.append("STALE-FINDING property=%s id=%s no longer reproduces (%s)" % (prop, f.get("id"), f["desc"]))
            else:
                print("KNOWN-FINDING: property=%s id=%s %s" % (prop, f.get("id"), f["desc"]))

        T_PRE[0] = time.time() - t0
        # 3. generated campaigns: the rapidcheck stages of a check run side by side (their long poles overlap),
        #    sharing JOBS process slots; a libFuzzer stage runs alone afterwards
        import threading
        sem = threading.BoundedSemaphore(JOBS)
        pre = {}

        def run_stage(si, st):
            logdir = os.path.join(RUN_DIR, "stage%d" % si)
            os.makedirs(logdir)
            plan = st["plan"]
            if st.get("workers"):
                plan = [plan[0]] * st["workers"]
            pre[si] = run_campaign(bins[st["binary"]], prop, plan, st.get("lenscale", 1), seed, thorough,
                                   st.get("param_per_worker") or st.get("param", ""), logdir, sem=sem,
                                   stall_s=st.get("stall_s", 300))

        ths = [threading.Thread(target=run_stage, args=(si, st)) for si, st in enumerate(stages) if st.get("engine") != "libfuzzer"]
        serial = os.environ.get("VERIF_SERIAL_STAGES")
        for t in ths:
            t.start()
            if serial:
                t.join()
        for t in ths:
            t.join()
        for si, st in enumerate(stages):
            logdir = os.path.join(RUN_DIR, "stage%d" % si)
            binary = bins[st["binary"]]
            if st.get("engine") == "libfuzzer":
                os.makedirs(logdir)
                fails = run_libfuzzer(binary, prop, st, seed, logdir)
                lost = 0
            else:
                if si not in pre:
                    raise RuntimeError("stage %s did not finish" % st["name"])
                fails, lost = pre[si]
            m = merge_logs(logdir)
            engines[st.get("engine", "rapidcheck") + ":" + st["name"]] = m["evaluations"]
            merge_into(merged_all, m)
            if lost:
                notes.append("INCONCLUSIVE property=%s stage=%s reason=worker-lost-cases n=%d" % (prop, st["name"], lost))
            # triage
            seen_sigs = set()
            # at most a handful of each type: one root cause usually fails every worker
            fails.sort(key=lambda f: {"falsified": 0, "crash": 1, "hang": 2}.get(f["type"], 3))
            budget = {"falsified": 4, "crash": 2, "hang": 1}
            for fl in fails:
                if budget.get(fl["type"], 0) <= 0:
                    continue
                budget[fl["type"]] -= 1
                v = triage(binary, prop, st, fl)
                if v is None:
                    continue
                if v[0] == "flaky":
                    selftest_fail.append("flaky failure, not reproducible 3x: " + v[1])
                    continue
                if v[2] in seen_sigs:
                    continue
                seen_sigs.add(v[2])
                violations.append((v[1], v[2]))
                stage_of[v[1]] = st["name"]
            # generator self-test (coverage floors), measured on the generated cases
            for lab, floor in st.get("label_floors", {}).items():
                if m["labels"].get(lab, 0) < floor:
                    selftest_fail.append("stage %s: label %s seen %d times (< %d)" % (st["name"], lab, m["labels"].get(lab, 0), floor))
            if st.get("nontrivial_floor", 2) > 0 and m["distinct_nontrivial"] < st.get("nontrivial_floor", 2) and not fails:
                selftest_fail.append("stage %s: %d distinct non-trivial cases (< %d)" % (st["name"], m["distinct_nontrivial"], st.get("nontrivial_floor", 2)))
        for k, n in sorted(merged_all["inconclusive"].items()):
            kind, reason = k.split(":", 1)
            notes.append("INCONCLUSIVE property=%s kind=%s reason=%s n=%d" % (prop, kind, reason, n))
    finally:
        pass

    wall = time.time() - t0
    cov = {
        "evaluations": merged_all["evaluations"] + engines.get("regress_replay", 0),
        "distinct_nontrivial": merged_all["distinct_nontrivial"],
        "rule": spec["rule"],
        "samples": merged_all["samples"][:8] or [{"note": "no non-trivial sample recorded"}],
        "by_kind": merged_all["by_kind"],
        "labels": merged_all["labels"],
        "counters": merged_all["counters"],
        "inconclusive": merged_all["inconclusive"],
        "tainted": merged_all["tainted"],
        "excluded_known": merged_all["excluded_known"],
        "known_findings_seen": merged_all["known_hits"],
        "engines": engines,
        "exhaustive": False,
    }
    bad = write_evidence(prop, tier, seed, cov, spec["assumptions"], wall, len(violations))
    for n in notes:
        print(n)
    if os.environ.get("VERIF_TIMES"):
        print("slowest workers (s, stratum, cases):", sorted(TIMES, reverse=True)[:8], "setup+replays %.0fs" % T_PRE[0])
    print("SUMMARY property=%s tier=%s seed=%d evaluations=%d distinct_nontrivial=%d violations=%d wall=%.0fs" % (
        prop, tier, seed, cov["evaluations"], cov["distinct_nontrivial"], len(violations), wall))
    if violations:
        os.makedirs(os.path.join(VERIF, "replays", prop), exist_ok=True)
        for path, desc in violations:
            dst = path
            if not path.startswith(os.path.join(VERIF, "regress")):
                h = hashlib.sha1(open(path, "rb").read()).hexdigest()[:12]
                dst = os.path.join(VERIF, "replays", prop, h + ".case")
                shutil.copy(path, dst)
                if os.path.exists(path + ".json"):
                    shutil.copy(path + ".json", dst + ".json")
                if path in stage_of:
                    with open(dst + ".stage", "w") as f:
                        f.write(stage_of[path] + "\n")
                with open(dst + ".txt", "w") as f:
                    f.write(desc + "\n")
            print("VIOLATION property=%s replay=%s  # %s" % (prop, dst, desc[:300]))
        shutil.rmtree(RUN_DIR, ignore_errors=True)
        return 1
    shutil.rmtree(RUN_DIR, ignore_errors=True)
    if selftest_fail or bad:
        for s in selftest_fail:
            print("SELFTEST-FAILED " + s)
        if bad:
            print("SELFTEST-FAILED evidence invalid: " + bad)
        return 2
    return 0


def merge_into(a, m):
    a["evaluations"] += m["evaluations"]
    a["distinct_nontrivial"] += m["distinct_nontrivial"]
    a["tainted"] += m["tainted"]
    a["excluded_known"] += m["excluded_known"]
    for k, v in m["by_kind"].items():
        d = a["by_kind"].setdefault(k, {"cases": 0, "conclusive": 0, "nontrivial": 0})
        for kk in d:
            d[kk] += v[kk]
    for key in ("labels", "counters", "known_hits", "inconclusive"):
        for k, v in m[key].items():
            a[key][k] = a[key].get(k, 0) + v
    a["samples"] += m["samples"][:3]


def stage_extra(st):
    ex = list(st.get("extra") or [])
    if st.get("param"):
        ex += ["--param", st["param"]]
    return ex or None


def stage_for_case(stages, path):
    """regress / finding replay files may carry a stage hint in a side file <case>.stage"""
    hint = None
    try:
        hint = open(path + ".stage").read().strip()
    except OSError:
        pass
    for st in stages:
        if hint and st["name"] == hint:
            return st
    return stages[0]


def describe(r):
    if r.get("timeout"):
        return "hang (isolated replay still running after the bound)"
    if r["crashed"]:
        return r["sig"]
    evs = [e for e in r["json"]["events"] if not e["known"] and e["prop"] == r["json"]["prop"]]
    if not evs:
        return "no event"
    e = evs[0]
    return "%s :: %s" % (e["sig"], " ".join(e["msg"][:400].split()))


def triage(binary, prop, st, fl):
    """Returns None (nothing reportable), ('flaky', text) or ('violation', replay path, description)."""
    path = fl["case"]
    extra = stage_extra(st)
    if fl["type"] == "hang":
        r = run_replay(binary, prop, path, extra=extra, timeout=120, trace=True)
        if r.get("timeout"):
            if r.get("cpu_bound"):
                # the case keeps the processor busy through many short library calls (each one below the per-call
                # CPU watchdog): slow, not hung - inconclusive, never a verdict
                print("NOTE slow case (CPU-bound for more than 120 s in isolation), no verdict: %s %s" % (path, crash_op(r["stderr"])))
                return None
            return ("violation", path, "hang/isolated-replay>120s " + crash_op(r["stderr"]))
        if r["crashed"] or (r["json"] and r["json"]["reportable"]):
            fl = dict(fl, type="crash" if r["crashed"] else "falsified")
        else:
            return None
    # three isolated replays must agree (two when a single replay takes more than 20 s)
    results = []
    t1 = time.time()
    results.append(run_replay(binary, prop, path, extra=extra, trace=True, timeout=150))
    nrep = 2 if time.time() - t1 > 20 else 3
    while len(results) < nrep:
        results.append(run_replay(binary, prop, path, extra=extra, trace=True, timeout=150))
    if fl["type"] == "crash" and any("allocator is out of memory" in (r.get("stderr") or "") or "failed to allocate" in (r.get("stderr") or "") for r in results):
        # the machine (or the sanitizer's allocator) refused a large reservation: a resource limit of the run, no verdict
        print("NOTE allocation refused by the sanitizer's allocator (resource limit), no verdict: %s" % path)
        return None
    if fl["type"] == "crash":
        if not all(r["crashed"] for r in results):
            if any(r["crashed"] for r in results):
                return ("flaky", "crash of %s reproduces only sometimes" % path)
            # the breadcrumb case passes in isolation: the crash depended on earlier cases (state leak)
            if any(r["json"] and r["json"]["reportable"] for r in results):
                return ("violation", path, describe(results[0]))
            tail = ""
            try:
                wid = os.path.basename(path).split(".")[0]
                tail = open(os.path.join(os.path.dirname(path), wid + ".stderr"), errors="replace").read()[-1500:].replace("\n", " | ")
            except OSError:
                pass
            if "failed to allocate" in tail or "out of memory" in tail or "allocator is out of memory" in tail:
                # the sanitizer runtime could not get memory from the machine (campaigns running side by side): the
                # worker was restarted, the case passes in isolation - a resource limit of the run, no verdict
                print("NOTE worker ended by the sanitizer runtime for lack of memory (resource limit), case passes in isolation: %s" % path)
                return None
            return ("flaky", "worker died (rc=%s) but the breadcrumb case %s passes in isolation; worker stderr: %s" % (fl.get("rc"), path, tail))
        sig = results[0]["sig"]
        # crashes belong to C07 and to the property that owns the operation in flight
        if not crash_is_for(prop, sig):
            print("NOTE crash outside this property's operations (reported by C07): %s" % sig)
            return None
        data = open(path, "rb").read()
        small = minimise_crash(binary, prop, data, sig.split("/")[1:3], extra=extra)
        if len(small) < len(data):
            path = path + ".min"
            open(path, "wb").write(small)
        return ("violation", path, sig)
    ok = [r for r in results if r["json"] and r["json"]["reportable"] > 0]
    if len(ok) == len(results):
        return ("violation", path, describe(results[0]))
    if st.get("nondeterministic") and fl["type"] == "falsified":
        # real threads under the OS scheduler: the failing interleaving need not recur on replay.  A
        # sanitizer report (data race, use after free) or a wrong result observed once is evidence in
        # itself - correct code produces it under no schedule - so it is reported with the report text
        # recorded when it happened; up to 12 further replays try to reproduce it first.
        for _ in range(12):
            if ok:
                break
            r = run_replay(binary, prop, path, extra=extra, trace=True, timeout=150)
            if r["json"] and r["json"]["reportable"] > 0:
                ok.append(r)
        if ok:
            return ("violation", path, describe(ok[0]))
        try:
            js = json.load(open(path + ".json"))
            evs = [e for e in js["events"] if not e["known"] and e["prop"] == js["prop"]]
        except (OSError, ValueError, KeyError):
            evs = []
        if evs:
            e = evs[0]
            return ("violation", path, "%s :: %s (schedule dependent: seen in the campaign, not in %d isolated replays; report in %s.json)" % (
                e["sig"], " ".join(e["msg"][:300].split()), len(results) + 12, os.path.basename(path)))
    if any(r["crashed"] for r in results):
        return ("violation", path, [r for r in results if r["crashed"]][0]["sig"])
    if not ok:
        return ("flaky", "falsified case %s passes on replay" % path)
    return ("flaky", "falsified case %s fails only %d/%d replays" % (path, len(ok), len(results)))


def crash_op(err):
    op = ""
    for l in err.splitlines():
        if l.startswith("OP "):
            op = l[3:].strip()
    return op


OP_OWNER = {
    "locate_member": "C01", "extract": "C01", "locate_absent": "C02", "extract_bad": "C02",
    "extract_rank": "C03", "locate_rank": "C03", "locate_prefix": "C04", "extract_prefix": "C04",
    "locate_substr": "C05", "extract_substr": "C05", "extract_table": "C13", "metadata": "C15",
    "load_generic": "C06", "load_own": "C06", "save": "C08",
}


def crash_is_for(prop, sig):
    if prop == "C07":
        return True
    op = ""
    for part in sig.split("/")[-1].split(","):
        if part.startswith("op="):
            op = part[3:]
    if op.startswith("unsup_"):
        return prop == "C16"
    owner = OP_OWNER.get(op)
    if owner is None:
        return prop in props.SPECS and props.SPECS[prop].get("owns_all_crashes", False)
    return owner == prop or props.SPECS[prop].get("owns_all_crashes", False)


def run_libfuzzer(binary, prop, st, seed, logdir):
    # implemented in fuzz.py to keep this file readable
    import fuzz
    return fuzz.run(binary, prop, st, seed, logdir, base_env(), KNOWN, JOBS)


def cmd_survey(prop, tier):
    """development aid: run the property's campaigns without failing and print the event landscape"""
    global RUN_DIR
    os.environ["VERIF_SURVEY"] = "1"
    spec = props.SPECS[prop]
    RUN_DIR = os.path.join(VERIF, ".run", "survey-%s-%d" % (prop, os.getpid()))
    shutil.rmtree(RUN_DIR, ignore_errors=True)
    os.makedirs(RUN_DIR)
    stages = spec["stages"](tier)
    bins = vbuild.build(sorted({st["binary"] for st in stages}))
    seed = int(os.environ.get("VERIF_SEED", "1") or 1)
    hist = {}
    for si, st in enumerate(stages):
        logdir = os.path.join(RUN_DIR, "stage%d" % si)
        os.makedirs(logdir)
        fails, lost = run_campaign(bins[st["binary"]], prop, st["plan"], st.get("lenscale", 1), seed,
                                   tier == "thorough", st.get("param", ""), logdir, max_restarts=30)
        for path in glob.glob(os.path.join(logdir, "w*.events")):
            for line in open(path, errors="replace"):
                t = line.rstrip("\n").split("\t")
                if len(t) < 4:
                    continue
                key = (t[0], t[1], t[2])
                h = hist.setdefault(key, [0, t[3], path.replace(".events", ".ev0.case")])
                h[0] += 1
        for fl in fails:
            if fl["type"] in ("crash", "hang"):
                r = run_replay(bins[st["binary"]], prop, fl["case"], trace=True, timeout=120)
                key = ("CRASH", r["sig"] if r["crashed"] else ("hang" if r.get("timeout") else "crash-not-reproduced"), "new")
                h = hist.setdefault(key, [0, "", fl["case"]])
                h[0] += 1
        m = merge_logs(logdir)
        print("stage %s: %d cases, %d nontrivial, lost %d, tainted %d" % (st["name"], m["evaluations"], m["distinct_nontrivial"], lost, m["tainted"]))
        print("   by_kind:", json.dumps(m["by_kind"]))
    for key in sorted(hist, key=lambda k: (k[0], k[1])):
        n, msg, ex = hist[key]
        print("%6d  %s  %s  [%s]\n          %s\n          e.g. %s" % (n, key[0], key[1], key[2], msg[:260], ex))
    return 0


def cmd_setup():
    t0 = time.time()
    names = list(vbuild.binaries().keys())
    have = []
    for n in names:
        srcs = vbuild.binaries()[n][1]
        if all(os.path.exists(s) for s in srcs):
            have.append(n)
    vbuild.build(have)
    print("setup: built %s in %.0fs" % (" ".join(have), time.time() - t0))
    return 0


def cmd_replay(prop, path):
    path = os.path.abspath(path)
    if not os.path.exists(path):
        print("no such file: " + path)
        return 2
    spec = props.SPECS[prop]
    stages = spec["stages"]("quick")
    st = stage_for_case(stages, path)
    bins = vbuild.build([st["binary"]])
    r = run_replay(bins[st["binary"]], prop, path, extra=stage_extra(st), trace=True)
    sys.stdout.write(r["stderr"][-8000:])
    if r["json"]:
        print(json.dumps(r["json"], indent=1)[:20000])
        if r["json"]["reportable"]:
            print("VIOLATION property=%s replay=%s  # %s" % (prop, path, describe(r)))
            return 1
        return 0
    print("VIOLATION property=%s replay=%s  # %s" % (prop, path, r["sig"]))
    return 1


def main():
    a = sys.argv[1:]
    if not a:
        print(__doc__)
        return 2
    if a[0] == "setup":
        return cmd_setup()
    if a[0] == "check":
        prop = a[1]
        tier = os.environ.get("VERIF_TIER", "quick")
        if "--tier" in a:
            tier = a[a.index("--tier") + 1]
        if tier not in ("quick", "thorough"):
            tier = "quick"
        return check(prop, tier)
    if a[0] == "replay":
        return cmd_replay(a[1], a[2])
    if a[0] == "survey":
        return cmd_survey(a[1], a[a.index("--tier") + 1] if "--tier" in a else "quick")
    print(__doc__)
    return 2


if __name__ == "__main__":
    # exit 1 is reserved for "VIOLATION printed": an error of the machinery itself must never look like one
    try:
        rc = main()
    except SystemExit:
        raise
    except BaseException:
        import traceback
        traceback.print_exc()
        print("SELFTEST-FAILED driver error (see traceback); no verdict")
        rc = 2
    sys.exit(rc)
