#!/usr/bin/env python3
"""Regenerates the table of DESIGN.md section 8.5 (between the seed-table markers) from seeded/*/meta.json."""
import json, os, re
V = os.path.dirname(os.path.dirname(os.path.abspath(__file__)))
rows = ["| seeded change | breaks | change | needs to manifest | quick-tier result |", "|---|---|---|---|---|"]
for d in sorted(os.listdir(os.path.join(V, "seeded"))):
    mp = os.path.join(V, "seeded", d, "meta.json")
    if not os.path.exists(mp):
        continue
    m = json.load(open(mp))
    res = []
    for l in m.get("checks_run_after_strengthening", []) or m.get("checks_run", []):
        mm = re.search(r" (C\d\d) rc=\S+ SUMMARY.*violations=(\d+)", l)
        if mm:
            res.append("%s: violations=%s" % (mm.group(1), mm.group(2)))
    if m.get("checks_run_after_strengthening"):
        res.append("(after strengthening; first run missed or mis-attributed, see meta.json)")
    rows.append("| `%s` | %s | %s | %s | %s |" % (d, m["breaks_property"], m["change"], m["needs_to_manifest"], "; ".join(res) or "see meta.json"))
p = os.path.join(V, "DESIGN.md")
s = open(p).read()
a, b = "<!-- seed-table-begin -->", "<!-- seed-table-end -->"
if a in s:
    s = s[:s.index(a) + len(a)] + "\n" + "\n".join(rows) + "\n" + s[s.index(b):]
    open(p, "w").write(s)
    print("table rows:", len(rows) - 2)
else:
    print("markers not found")
