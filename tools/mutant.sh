#!/bin/bash
# usage: tools/mutant.sh <patch.diff> "<props>" [tier]  -- runs checks against a scratch copy of /repo with the patch applied
set -u
patch=$(readlink -f "$1"); props=$2; tier=${3:-quick}
W=/tmp/mut.$$
rm -rf $W; mkdir -p $W
rsync -a --exclude _build --exclude .git /repo/ $W/repo/
( cd $W/repo && patch -p1 -s < "$patch" ) || { echo "PATCH FAILED"; rm -rf $W; exit 3; }
for p in $props; do
  out=$(VERIF_REPO=$W/repo VERIF_BUILD=$W/build timeout 3600 python3 /verif/tools/verif.py check $p --tier $tier 2>&1)
  rc=$?
  echo "mutant $(basename $(dirname $patch))/$(basename $patch) $p rc=$rc $(echo "$out" | grep '^SUMMARY' | cut -c1-140)"
  echo "$out" | grep '^VIOLATION\|^SELFTEST\|^BUILD' | head -3 | cut -c1-300
done
rm -rf $W
