"""Build support: compiles /repo's current working tree (library sources are
parsed out of the two CMakeLists.txt) plus the harness into
/verif/.build/<variant>/ through ninja.  Nothing is taken from /repo/_build."""
import fcntl
import os
import re
import subprocess
import sys

VERIF = os.path.dirname(os.path.dirname(os.path.abspath(__file__)))
REPO = os.environ.get("VERIF_REPO", "/repo")
BUILD_ROOT = os.environ.get("VERIF_BUILD", os.path.join(VERIF, ".build"))
JOBS = int(os.environ.get("VERIF_JOBS", "16"))

COMMON = "-std=gnu++17 -g -O1 -fno-omit-frame-pointer -w -DLIBCSD_VERIF"
VARIANTS = {
    # sanitizer build used by almost everything
    "asan": {
        "cxx": "clang++",
        "cflags": COMMON + " -fsanitize=address -fsanitize-recover=address "
                  "-fsanitize=array-bounds,null",
        "ldflags": "-fsanitize=address -fsanitize=array-bounds,null",
    },
    # libFuzzer flavour of the same (library objects carry coverage instrumentation)
    "fuzz": {
        "cxx": "clang++",
        "cflags": COMMON + " -fsanitize=address,fuzzer-no-link -fsanitize-recover=address "
                  "-fsanitize=array-bounds,null",
        "ldflags": "-fsanitize=address,fuzzer -fsanitize=array-bounds,null",
    },
    "tsan": {
        "cxx": "clang++",
        "cflags": COMMON + " -fsanitize=thread",
        "ldflags": "-fsanitize=thread",
    },
    "plain": {
        "cxx": "clang++",
        "cflags": COMMON + " -gdwarf-4",
        "ldflags": "",
    },
}


def parse_cmake_sources(cmake_path, base_dir):
    """Return the list of sources named in set(<x>_srcs ...) blocks."""
    srcs = []
    try:
        text = open(cmake_path).read()
    except OSError:
        return srcs
    for m in re.finditer(r"set\(\s*\w+_srcs\s+(.*?)\)", text, re.S):
        for line in m.group(1).splitlines():
            line = line.split("#", 1)[0].strip()
            for tok in line.split():
                if tok.endswith(".cpp") or tok.endswith(".c"):
                    p = os.path.join(base_dir, tok)
                    if os.path.exists(p) and p not in srcs:
                        srcs.append(p)
    return srcs


def library_sources():
    csd = parse_cmake_sources(os.path.join(REPO, "CMakeLists.txt"), REPO)
    cds = parse_cmake_sources(os.path.join(REPO, "libcds", "CMakeLists.txt"),
                              os.path.join(REPO, "libcds"))
    if len(csd) < 20 or len(cds) < 20:
        # fallback: glob the same directories
        csd, cds = [], []
        for root, _dirs, files in os.walk(REPO):
            rel = os.path.relpath(root, REPO)
            if rel.startswith("_build") or rel.startswith(".git") or rel.startswith("test"):
                continue
            if rel.startswith("libcds") and not rel.startswith(os.path.join("libcds", "src")):
                continue
            for f in sorted(files):
                if not f.endswith(".cpp") or f in ("Build.cpp", "Test.cpp"):
                    continue
                (cds if rel.startswith("libcds") else csd).append(os.path.join(root, f))
    return csd, cds


def include_flags():
    return "-I%s -I%s/libcds/includes" % (REPO, REPO)


def objname(src):
    rel = os.path.relpath(src, "/")
    return "obj/" + rel.replace("/", "_").replace(".cpp", ".o")


# harness binaries: name -> (variant, [harness sources], extra cflags, extra libs, needs_lib)
def binaries():
    H = os.path.join(VERIF, "harness")
    S = os.path.join(VERIF, "sched")
    return {
        "dict_rc": ("asan", [H + "/dict_case.cpp", H + "/rc_main.cpp", H + "/common.cpp"], "", "-lrapidcheck", True),
        "comp_rc": ("asan", [H + "/comp_case.cpp", H + "/rc_main.cpp", H + "/common.cpp"], "-fno-access-control", "-lrapidcheck", True),
        "dict_fz": ("fuzz", [H + "/dict_case.cpp", H + "/fz_main.cpp", H + "/common.cpp"], "", "", True),
        "comp_fz": ("fuzz", [H + "/comp_case.cpp", H + "/fz_main.cpp", H + "/common.cpp"], "-fno-access-control", "", True),
        "dict_plain": ("plain", [H + "/dict_case.cpp", H + "/rc_main.cpp", H + "/common.cpp"], "-DVERIF_PLAIN", "-lrapidcheck", True),
        "comp_plain": ("plain", [H + "/comp_case.cpp", H + "/rc_main.cpp", H + "/common.cpp"], "-DVERIF_PLAIN -O2 -fno-access-control", "-lrapidcheck", True),
        "sched_rc": ("plain", [H + "/sched_case.cpp", H + "/rc_main.cpp", H + "/common.cpp", S + "/vsched.cpp"], "-DVERIF_PLAIN -DVERIF_SCHED", "-lrapidcheck -ldl -lpthread", True),
        "native_rc": ("asan", [H + "/sched_case.cpp", H + "/rc_main.cpp", H + "/common.cpp"], "-DVERIF_NATIVE", "-lrapidcheck -lpthread", True),
        "race_rc": ("tsan", [H + "/race_case.cpp", H + "/rc_main.cpp", H + "/common.cpp"], "-DVERIF_TSAN", "-lrapidcheck -lpthread", True),
    }


def write_ninja(variant, wanted):
    v = VARIANTS[variant]
    bdir = os.path.join(BUILD_ROOT, variant)
    os.makedirs(os.path.join(bdir, "obj"), exist_ok=True)
    csd, cds = library_sources()
    out = []
    out.append("cxx = %s" % v["cxx"])
    out.append("cflags = %s %s -I%s/harness -I%s/sched" % (v["cflags"], include_flags(), VERIF, VERIF))
    out.append("ldflags = %s" % v["ldflags"])
    out.append("rule cc\n  command = $cxx $cflags $extra -MMD -MF $out.d -c $in -o $out\n  depfile = $out.d\n  deps = gcc\n  description = CC $out")
    out.append("rule ar\n  command = rm -f $out && llvm-ar-14 rcs $out $in\n  description = AR $out")
    out.append("rule link\n  command = $cxx $ldflags -o $out $in $libs\n  description = LINK $out")
    libobjs = []
    for s in csd + cds:
        o = objname(s)
        libobjs.append(o)
        out.append("build %s: cc %s" % (o, s))
    out.append("build libcsd.a: ar %s" % " ".join(libobjs))
    bins = binaries()
    for name in wanted:
        var, srcs, extra, libs, needs = bins[name]
        assert var == variant
        objs = []
        for s in srcs:
            o = "obj/%s__%s" % (name, os.path.basename(s).replace(".cpp", ".o"))
            # rapidcheck / scheduler TUs do not depend on the binary: share them
            if os.path.basename(s) in ("rc_main.cpp", "vsched.cpp"):
                o = "obj/shared__%s" % os.path.basename(s).replace(".cpp", ".o")
                if any(l.startswith("build %s:" % o) for l in out):
                    objs.append(o)
                    continue
            objs.append(o)
            out.append("build %s: cc %s\n  extra = %s" % (o, s, extra))
        out.append("build %s: link %s %s\n  libs = %s" % (name, " ".join(objs), "libcsd.a" if needs else "", libs))
    out.append("default %s" % " ".join(wanted))
    text = "\n".join(out) + "\n"
    path = os.path.join(bdir, "build.ninja")
    old = None
    try:
        old = open(path).read()
    except OSError:
        pass
    if old != text:
        with open(path, "w") as f:
            f.write(text)
    return bdir


def build(names, quiet=True):
    """Build the given harness binaries (rebuilding the library from /repo's
    working tree as needed).  Returns dict name -> path.  Raises on failure."""
    bins = binaries()
    byvar = {}
    for n in names:
        byvar.setdefault(bins[n][0], []).append(n)
    paths = {}
    os.makedirs(BUILD_ROOT, exist_ok=True)
    for variant, wanted in byvar.items():
        lockf = open(os.path.join(BUILD_ROOT, variant + ".lock"), "w")
        fcntl.flock(lockf, fcntl.LOCK_EX)
        try:
            # union with what an earlier call registered so build.ninja stays stable
            regf = os.path.join(BUILD_ROOT, variant + ".targets")
            known = set()
            try:
                known = set(open(regf).read().split())
            except OSError:
                pass
            known = {k for k in known if k in bins and bins[k][0] == variant}
            allw = sorted(known | set(wanted))
            with open(regf, "w") as f:
                f.write("\n".join(allw))
            bdir = write_ninja(variant, allw)
            cmd = ["ninja", "-C", bdir, "-j", str(JOBS)] + wanted
            r = subprocess.run(cmd, stdout=subprocess.PIPE, stderr=subprocess.STDOUT, text=True)
            if r.returncode != 0:
                sys.stdout.write(r.stdout[-6000:])
                raise RuntimeError("build failed for variant %s" % variant)
            for n in wanted:
                paths[n] = os.path.join(bdir, n)
        finally:
            fcntl.flock(lockf, fcntl.LOCK_UN)
            lockf.close()
    return paths
