"""Per-property campaign specifications (what is generated, how much, floors)."""

KINDS = ["PFC", "RPFC", "HTFC", "HHTFC", "RPHTFC", "RPDAC", "FMINDEX", "XBW", "HASHHF", "HASHRPF", "HASHUFFDAC",
         "HASHRPDAC", "BLOCKS"]
NCLASS = 6
ALL = list(range(13))
ORDERED = [0, 1, 2, 3, 4, 5, 6]
PREFIX = [0, 1, 2, 3, 4, 5, 6, 7]
SUBSTR = [6, 7]

DICT_ASSUME = [
    "input domain of DESIGN.md 2.3: sorted duplicate-free non-empty strings over bytes 0x02..0xFE, built through "
    "IteratorDictStringPlain with the calling conventions of Build.cpp / the tests",
    "reference model = the sorted std::vector<std::string> and brute-force prefix / substring / rank functions",
    "ASan (recover mode) + UBSan array-bounds/null build of /repo's working tree with -DLIBCSD_VERIF",
    "members/IDs examined per sweep are capped at 300 (quick) / 1500 (thorough) per object state for n above the cap",
]


def dict_plan(kinds, small, large):
    """List of (stratum, cases, rapidcheck max_size).  Strata = kind x size class.  Kinds that are only
    explored on part of the domain because of a known finding get their budget where they work."""
    import os
    only = os.environ.get("VERIF_KINDS")   # development aid: restrict a run to some kinds
    plan = []
    for k in kinds:
        name = KINDS[k]
        if only and name not in only.split(","):
            continue
        if name == "RPHTFC" and not os.environ.get("VERIF_ALLK"):          # F04 / F05: whole kind excluded, keep a token presence
            plan.append((k * NCLASS + 2, 4, 120))
            continue
        for c in (0, 1, 2, 3):
            plan.append((k * NCLASS + c, small, 260))
        for c in (4, 5):
            if large:
                plan.append((k * NCLASS + c, large, 420))
    # longest jobs first
    plan.sort(key=lambda t: -(t[0] % NCLASS))
    mult = int(os.environ.get("VERIF_CASE_MULT", "1"))   # development aid
    if mult != 1:
        plan = [(a, b * mult, c) for (a, b, c) in plan]
    return plan


def scale_stage(kinds, cases_quick):
    """size class 7: 140 000-280 000 strings, 1-4 MB of text, default MEMALLOC, mostly bucket size 2-4"""
    def f(tier):
        import os
        only = os.environ.get("VERIF_KINDS")
        ks = [k for k in kinds if KINDS[k] != "RPHTFC" and (not only or KINDS[k] in only.split(","))]
        return [{"name": "scale", "binary": "dict_rc", "param": "scale", "plan": [(k * NCLASS + 5, cases_quick * (4 if tier == "thorough" else 1), 60) for k in ks],
                 "label_floors": {}, "nontrivial_floor": 8 if not only else 0}]
    return f


def hugelcp_stage(kinds, cases_quick):
    """size class 8: 2-6 strings of 16-50 KB whose shared prefix sits around 2^14 / 2^15 bytes"""
    def f(tier):
        import os
        only = os.environ.get("VERIF_KINDS")
        ks = [k for k in kinds if KINDS[k] not in ("RPHTFC", "HTFC", "HHTFC") and (not only or KINDS[k] in only.split(","))]
        return [{"name": "hugelcp", "binary": "dict_rc", "param": "hugelcp", "plan": [(k * NCLASS + 2, cases_quick * (4 if tier == "thorough" else 1), 60) for k in ks],
                 "label_floors": {}, "nontrivial_floor": 8 if not only else 0}]
    return f


def nsweep_stage(kinds, cases_quick):
    """C06: one string family of 3 000-12 000 strings (> 64 KB of text), dictionary built / saved / loaded for 72 (XBW, FMINDEX: 40) consecutive sizes"""
    def f(tier):
        import os
        only = os.environ.get("VERIF_KINDS")
        ks = [k for k in kinds if KINDS[k] not in ("RPHTFC",) and (not only or KINDS[k] in only.split(","))]
        return [{"name": "nsweep", "binary": "dict_rc", "param": "nsweep", "plan": [(k * NCLASS + 5, cases_quick * (3 if tier == "thorough" else 1), 60) for k in ks],
                 "label_floors": {}, "nontrivial_floor": 6 if not only else 0}]
    return f


def dict_stages(kinds, quick_small, quick_large, binary="dict_rc", floors=None, nontrivial_floor=20, thorough_mult=4):
    def f(tier):
        import os
        # thorough: 4x the cases, size class 6 and the 1500-member sweep cap (about 15-20x the quick wall time);
        # VERIF_THOROUGH_MULT=12 is the overnight setting (C01 took 57 min with it)
        mult = int(os.environ.get("VERIF_THOROUGH_MULT", thorough_mult)) if tier == "thorough" else 1
        st = [{"name": "dict", "binary": binary, "plan": dict_plan(kinds, quick_small * mult, quick_large * mult),
               "label_floors": floors or {}, "nontrivial_floor": nontrivial_floor}]
        if tier == "thorough":
            import os
            st.append({"name": "fuzz", "engine": "libfuzzer", "binary": "dict_fz", "seconds": int(os.environ.get("VERIF_FUZZ_SECONDS", "300")),
                       "seed_strata": [t[0] for t in dict_plan(kinds, 1, 1)], "max_len": 700, "nontrivial_floor": 0})
        return st
    return f


NOT_CLAIMED = {}

COMMON_NOTE = ("Trusted base: the harness decoder/model (harness/dict_*.h, dict_case.cpp), clang 14 ASan/UBSan, rapidcheck. "
               "Assumes the calling conventions of Build.cpp/tests. Inputs above ~3000 strings (12000 thorough) / ~250 KB are not "
               "explored; no absence proof. Sub-domains excluded because of recorded defects are listed in KNOWN_FINDINGS.txt "
               "(decoding-table kinds: HTFC n mod bucket == 1 and runs >=14, HASHHF/HASHUFFDAC runs >=14, HHTFC partial last bucket, "
               "RPHTFC entirely) and counted in the evidence as excluded_known / inconclusive.")


def _meta(text, technique):
    return {"level_text": text, "level_note": COMMON_NOTE, "technique": technique, "family": "dict"}


COMP_NOTE = ("Trusted base: the plain-definition models in harness/comp_case.cpp, clang 14 ASan/UBSan, rapidcheck. Arguments are kept "
             "inside the ranges the statement quantifies over (positions < length, values < 2^width, select arguments <= count, "
             "frequency totals bounded so that no codeword exceeds 32 bits); no absence proof.")
CP = {"VByte": 0, "LogSequence": 1, "DAC_VLS": 2, "HuffmanTable": 3, "HuTuckerTable": 4, "StatCoder": 5, "BitSequence": 6,
      "WaveletTree": 7, "RePair": 8}


def comp_stages(plan_quick, floors=None, nontrivial_floor=50, thorough_mult=8, extra_thorough=None):
    def f(tier):
        mult = thorough_mult if tier == "thorough" else 1
        st = [{"name": "comp", "binary": "comp_rc", "plan": [(CP[c] * 16 + sub, cases * mult, size) for (c, sub, cases, size) in plan_quick],
               "label_floors": floors or {}, "nontrivial_floor": nontrivial_floor}]
        if tier == "thorough" and extra_thorough:
            st += extra_thorough
        if tier == "thorough":
            import os
            st.append({"name": "fuzz", "engine": "libfuzzer", "binary": "comp_fz", "seconds": int(os.environ.get("VERIF_FUZZ_SECONDS", "240")),
                       "seed_strata": sorted({CP[c] * 16 + sub for (c, sub, _n, _s) in plan_quick}), "max_len": 700, "nontrivial_floor": 0})
        return st
    return f


def _cmeta(text, technique):
    return {"level_text": text, "level_note": COMP_NOTE, "technique": technique, "family": "comp"}


SCHED_NOTE = ("Trusted base: sched/vsched.cpp (interposed pthread_mutex_lock/trylock/unlock, pthread_cond_wait/signal/broadcast, "
              "pthread_create/join; one runnable thread at a time; mutexes and condition variables modelled; no spurious wake-ups "
              "injected), glibc symbol interposition, rapidcheck. Scheduling points are synchronisation calls only: interleavings "
              "inside unsynchronised regions are the data-race check's business (C11). Timed waits would be modelled as plain waits "
              "(the code under test uses none; the harness fails its self-test if one appears). Exploration, not exhaustive.")


def sched_stages(prop, quick_cases, size, floors=None, nontrivial_floor=200, thorough_mult=25):
    def f(tier):
        mult = thorough_mult if tier == "thorough" else 1
        return [{"name": "sched", "binary": "sched_rc", "plan": [(0, quick_cases * mult, size)] * 16,
                 "label_floors": floors or {}, "nontrivial_floor": nontrivial_floor}]
    return f


SPECS = {
    "C01": {
        **_meta('Generated-input search: thousands of (kind, parameter, string-set) cases per run, every member and ID of each case checked in both directions against the reference set on the built and both loaded objects; failures shrink to a replay file. Exploration is the right level: the property is universally quantified over inputs and 13 implementations, no finite model exists.', 'property-based testing (rapidcheck), reference-model round trip + bijection, ASan'),
        "stages": (lambda tier: dict_stages(ALL, 60, 12)(tier) + scale_stage(ALL, 2)(tier) + hugelcp_stage(ALL, 4)(tier)),
        "rule": "case = (kind, legal parameters, string set S, object state) decoded from rapidcheck bytes; for every "
                "state (fresh, generic-loaded, own-loaded) all members (sample of 300 above that) are located, extracted "
                "and compared with the reference set, and all IDs are extracted, looked up in S and located back "
                "(bijection). non-trivial = n>=2 and >=2 buckets (front coding) / n>=2 (others), conclusive and not "
                "tainted; distinct = 64-bit hash of (kind, params, S, op bytes). stage 'scale': 2 cases per kind with 140 000-280 000 strings "
                "(1-4 MB of text, default MEMALLOC, bucket size mostly 2-4, i.e. more than 2^16 buckets), 300 members / IDs sampled per state. "
                "stage 'hugelcp': 4 cases per kind with 2-6 strings of 16-70 KB whose shared prefix is 16383..16512, 32767..32800, 49152, 65535..65600, ~20000 or ~70000 bytes",
        "assumptions": DICT_ASSUME,
    },
    "C02": {
        **_meta('Generated absent queries of every class the statement names (prefixes, extensions, neighbours, out-of-alphabet, out-of-range) and bad IDs up to SIZE_MAX against every kind/state; oracle locate==0 / NULL,len 0 and no sanitizer report inside the call.', 'property-based testing (rapidcheck), negative oracle from the reference set, ASan in-call reports'),
        "stages": dict_stages(ALL, 50, 10, floors={"absent:proper_prefix": 50, "absent:extension": 50,
                                                    "absent:out_of_alphabet": 50, "absent:below_first": 30,
                                                    "absent:above_last": 30, "absent:longer_than_all": 50}),
        "rule": "case as C01; queries are derived from S: proper prefixes, extensions, last byte +-1, bytes outside the "
                "alphabet, below the first / above the last member, longer than every member, between neighbours; bad IDs "
                "0, n+1, n+2, 2n+1, 2^31, 2^32-1, 2^32, 2^32+1, SIZE_MAX, random >n. Oracle: locate==0, extract==NULL "
                "with length 0, no sanitizer report inside the call. non-trivial = the query list holds >=1 prefix or "
                "extension, >=1 out-of-alphabet and >=1 out-of-range query",
        "assumptions": DICT_ASSUME + ["query buffers are exactly strLen+1 bytes"],
    },
    "C03": {
        **_meta('Generated sets with unsigned-order traps (bytes >=0x80, long shared prefixes); ID order and rank operations compared with the sorted reference for all ranks (sampled above 300).', 'property-based testing (rapidcheck), sorted reference model'),
        "stages": dict_stages(ALL, 50, 10),
        "rule": "case as C01; ordered kinds (PFC RPFC HTFC HHTFC RPHTFC RPDAC FMINDEX): extract(i)==S[i-1] and "
                "locate(S[i-1])==i in unsigned byte order; every kind: extractRank(k) / extract(locateRank(k)) equal "
                "S[k-1] whenever the answer is non-null. non-trivial = n>=3, >=2 buckets, ordered kind or a rank answer",
        "assumptions": DICT_ASSUME,
    },
    "C04": {
        **_meta('Generated prefix patterns with measured coverage of bucket-boundary shapes; exact ID range / limits / strings compared with a brute-force filter of the reference set.', 'property-based testing (rapidcheck), brute-force reference filter'),
        "stages": dict_stages(PREFIX, 50, 10, floors={"prefix:2buckets": 20, "prefix:3+buckets": 20,
                                                       "prefix:ends_at_boundary": 20, "prefix:none_inside": 20,
                                                       "prefix:whole_dictionary": 5}),
        "rule": "case as C01 on the 8 prefix-capable kinds; patterns derived from S (first byte, member prefixes, "
                "members, prefix+byte, longer than all, before/after all, neighbour lcp, last byte+1); oracle = "
                "brute-force range of S: ID list / limits / extracted strings. non-trivial = the pattern list has >=1 "
                "multi-bucket match and >=1 empty result",
        "assumptions": DICT_ASSUME,
    },
    "C05": {
        **_meta('Generated substring patterns (repeated, absent, single byte ...) on FMINDEX (both bitmap kinds, sampling steps) and XBW; ID set and strings compared with memmem over the reference set.', 'property-based testing (rapidcheck), brute-force reference filter'),
        "stages": dict_stages(SUBSTR, 120, 20, floors={"substr:repeated_in_member": 30, "substr:absent": 30}),
        "rule": "case as C01 on FMINDEX (BWT sampling >=1; sampling 0 cases only check nothing) and XBW; patterns: "
                "single bytes, inner substrings, suffixes, prefixes, whole members, absent, repeated; oracle = memmem "
                "over S. non-trivial = >=1 pattern occurring twice inside one member and >=1 absent pattern",
        "assumptions": DICT_ASSUME,
    },
    "C06": {
        **_meta('Generated cases of every kind are saved and reloaded through both loaders (hash load options 1..3); the loaded objects must answer a generated query list exactly like the original and pass the reference-model sweeps; two images plus a sentinel are read back-to-back by the own loader with tellg checked after each.', 'property-based testing (rapidcheck), differential original-vs-loaded + reference model + stream position oracle'),
        "stages": (lambda tier: dict_stages(ALL, 40, 8, floors={"c06_stream_of_two": 200})(tier) + nsweep_stage(ALL, 1)(tier)),
        "rule": "case as C01; non-trivial = n>=2 and the two-image stream was read back completely (tellg after each own-loader "
                "call == bytes written, sentinel intact); distinct = hash of (kind, params, S, op bytes)",
        "assumptions": DICT_ASSUME,
    },
    "C07": {
        **_meta('Everything the other dictionary drivers do (all sweeps, all states, abandoned iterators, repeated saves), plus run-time MEMALLOC 1..32768 and bucket sizes 0/1, executed under ASan (recover mode) + UBSan array-bounds/null with fatal signals and a CPU watchdog caught per call; every sanitizer report, signal or escaped exception is an event.', 'property-based testing + sanitizers as oracle (ASan/UBSan reports, caught fatal signals, CPU-time watchdog on tiny inputs)'),
        "stages": (lambda tier: dict_stages(ALL, 40, 8, floors={"memalloc_small": 200, "n_mult_bucket": 100, "maxlen_ge128": 100})(tier)
                   + scale_stage(ALL, 2)(tier) + hugelcp_stage(ALL, 3)(tier)
                   + [{"name": "perturb", "binary": "dict_plain", "param": "perturb", "plan": dict_plan(ALL, 20 * (4 if tier == "thorough" else 1), 4 * (4 if tier == "thorough" else 1)),
                       "label_floors": {"c07_perturb_pair": 300}, "nontrivial_floor": 100}]),
        "rule": "case as C01 plus MEMALLOC class and bucket clamp; non-trivial = n==1, n multiple of the bucket size, a string "
                ">=128 bytes, a reduced MEMALLOC or an abandoned iterator; distinct = hash of the decoded case. stage 'perturb' (plain build): "
                "60 generated queries answered by the built and by the loaded object under mallopt(M_PERTURB, 0x11) and again under 0xEE, answers compared. "
                "stage 'scale': 2 cases per kind with 140 000-280 000 strings at the default MEMALLOC (every construction buffer is reallocated for real)",
        "assumptions": DICT_ASSUME + ["leaks and new[]/delete mismatches are not reported (not part of the statement)",
                                      "memcmp over-reads that stop at a guaranteed earlier difference are not reported (strict_memcmp=0)",
                                      "uninitialised reads are visible through their effects only: answers that change with the heap fill pattern (perturb stage) and images that change with it (C08); no valgrind / MSan tier"],
    },
    "C08": {
        **_meta('Histories build,(query|save)* and load,(query|save)* on every kind: images of repeated saves compared byte for byte, answers before/after each save compared, two independent builds compared, re-saved images of loaded objects compared or reloaded and re-queried.', 'property-based testing (rapidcheck), byte-equality + differential before/after oracle'),
        "stages": (lambda tier: dict_stages(ALL, 40, 8, floors={"c08_rebuild_equal": 200})(tier)
                   + [{"name": "perturb", "binary": "dict_plain", "param": "perturb", "plan": dict_plan(ALL, 25 * (12 if tier == "thorough" else 1), 5 * (12 if tier == "thorough" else 1)),
                       "label_floors": {"c08_perturb_pair": 300}, "nontrivial_floor": 100}]),
        "rule": "case as C01 with a generated query list; non-trivial = n>=2 and >=2 saves on one object interleaved with queries; "
                "stage 'perturb' (plain build): the same case built under mallopt(M_PERTURB, 0x11) and 0xEE, images compared",
        "assumptions": DICT_ASSUME,
    },
    "C12": {
        **_meta('Metamorphic: one string set, two generated legal parameter vectors of one kind (or two different order-preserving kinds); all answers must agree (IDs too for ordered kinds, membership / string multisets for hash kinds and XBW); bucket sizes 0/1 must give the bucket-2 image and a warning.', 'property-based testing (rapidcheck), metamorphic relation across parameter vectors and kinds'),
        "stages": dict_stages(ALL, 50, 8, floors={"c12_layout_differs": 200, "c12_cross_kind": 100, "c12_clamp": 40}),
        "rule": "case = (kind, two parameter vectors | second ordered kind, S, queries); non-trivial = n>=3 and the vectors differ "
                "in a layout parameter (bucket count, table size, sampling, cut, threads), or a cross-kind pair, or a clamp case",
        "assumptions": DICT_ASSUME,
    },
    "C14": {
        **_meta('Model-based history testing: one object receives a generated sequence of 8-57 queries (members, absent, bad IDs, prefix, substring, rank, table, several iterators drained in interleaved order); repeated queries must repeat their answer and a pristine twin loaded from the same image must give the same answer to the same single query; every pattern buffer is compared after the call.', 'stateful property-based testing (rapidcheck), twin-object differential oracle + pattern-buffer guard'),
        "stages": dict_stages(ALL, 40, 6, floors={"c14_interleaved_iterators": 100, "c14_failed_then_ok": 200}),
        "rule": "case = (kind, params, S, object state, history); non-trivial = >=1 twin comparison and >=1 repeated query in the "
                "history; distinct = hash of the decoded case",
        "assumptions": DICT_ASSUME,
    },
    "C17": {
        **_cmeta('Generated values / operation histories / sequence lists against plain models: VByte on boundary and random 32-bit values with exact-size output buffers (thorough: all 2^32 values, exhaustive), LogSequence set/get histories for widths 1..64 with a full-array comparison after every store, DAC_VLS lists incl. all-length-1 and length-1-last shapes via access and the access_next chain; each also through save/load.', 'property-based testing (rapidcheck) with array / sequence reference models; exhaustive enumeration of the VByte domain in the thorough tier'),
        "stages": comp_stages([("VByte", 0, 1000, 300), ("VByte", 1, 1000, 300), ("LogSequence", 0, 3000, 400), ("LogSequence", 1, 3000, 400),
                               ("LogSequence", 2, 3000, 400), ("LogSequence", 3, 3000, 400), ("DAC_VLS", 0, 2500, 500), ("DAC_VLS", 1, 2500, 500),
                               ("DAC_VLS", 2, 2500, 500), ("DAC_VLS", 3, 2500, 500)],
                              floors={"logseq_straddle": 300, "logseq_w64": 10, "dac_all_len1": 50, "dac_last_len1": 100, "vbyte_ge128": 100},
                              extra_thorough=[{"name": "vbyte-exhaustive", "binary": "comp_plain", "plan": [(0, 1, 1)], "param_per_worker": "vbyte-exhaustive:%d/64", "workers": 64, "nontrivial_floor": 64, "exhaustive": True}]),
        "rule": "case = one component with generated content (VByte value list | LogSequence width, length, op history | DAC list of "
                "symbol sequences, width); non-trivial = VByte value >=128 | a field of width >=2 straddling a 64-bit word was "
                "written | >=2 sequences with a longest of >=2; distinct = hash of the case bytes",
        "assumptions": ["DAC_VLS is driven in the callers' format (symbols, -i after the i-th sequence, length = array length - 1)",
                        "LogSequence positions < length and values < 2^width"],
    },
    "C18": {
        **_cmeta('Generated frequency vectors of seven profiles (uniform, dominant, two-level, geometric, Fibonacci, random) through Huffman and Hu-Tucker: Kraft equality, prefix-freeness and alphabetic order of the obtained tables; StatCoder output against an own bit-level coder and decoder; chunked table decoding through the coded dictionary kinds (HASHHF, HASHUFFDAC, HTFC, HHTFC) on generated sets incl. >16-bit codewords.', 'property-based testing (rapidcheck), code-table validity predicates + own reference coder; dictionary round trip for table decoding'),
        "stages": (lambda tier: comp_stages([("HuffmanTable", 0, 2500, 600), ("HuffmanTable", 1, 2500, 600), ("HuTuckerTable", 0, 2500, 600), ("HuTuckerTable", 1, 2500, 600),
                               ("StatCoder", 0, 2000, 600), ("StatCoder", 1, 2000, 600)],
                              floors={"freq:fibonacci": 100, "freq:one_dominant": 100, "code_gt16": 100, "coded_ends_on_byte": 50})(tier)
                   + [{"name": "dict", "binary": "dict_rc", "plan": dict_plan([2, 3, 8, 10], 30 * (12 if tier == "thorough" else 1), 10 * (12 if tier == "thorough" else 1)),
                       "nontrivial_floor": 20, "label_floors": {}}]),
        "rule": "case = frequency vector (256 entries >=1, total < 5e6) [+ strings to encode]; non-trivial = non-uniform profile, "
                "codewords <=32 bits; plus dictionary cases (kind, S) of the coded kinds; distinct = hash of the case bytes",
        "assumptions": ["codewords longer than 32 bits are outside the documented domain (discarded and counted)"],
    },
    "C19": {
        **_cmeta('Generated bit vectors (lengths around multiples of 32/64/15 and of the sampling, all-0/all-1/single/alternating/runs/sparse/random) through BitSequenceRG, RRR, SDArray, DArray with all builder parameters, and integer sequences through WaveletTree (Huffman shape) and WaveletTreeNoptrs: access/rank/select for every position and count compared with the plain definition, again after save/load.', 'property-based testing (rapidcheck), plain-definition reference model'),
        "stages": comp_stages([("BitSequence", 0, 2500, 300), ("BitSequence", 1, 2500, 300), ("BitSequence", 2, 1500, 300), ("BitSequence", 3, 300, 300),
                               ("BitSequence", 4, 2500, 300), ("BitSequence", 5, 2500, 300), ("BitSequence", 8, 2500, 300), ("BitSequence", 9, 2500, 300), ("WaveletTree", 0, 1200, 300), ("WaveletTree", 1, 1200, 300),
                               ("WaveletTree", 2, 1200, 300), ("WaveletTree", 3, 1200, 300)],
                              floors={"bits:all0": 50, "bits:all1": 50, "bits:single1": 50, "bits:runs": 100}),
        "rule": "case = (class, builder parameter, bit vector) | (tree class, bitmap builder, integer sequence); non-trivial = length "
                "> one superblock with 0 < ones < length | >=3 distinct symbols with skewed counts; distinct = hash of the case bytes",
        "assumptions": ["arguments inside the specified ranges (0<=i<len, 1<=j<=count)"],
    },
    "C20": {
        **_cmeta('Generated integer sequences over 1..255 with 0 terminators (random, single string, abab, aaaa, deeply nested repeats, near-identical strings, no repeated pair; with and without the final terminator) compressed by RePair; the compacted sequence is walked as the dictionary constructors do and expanded through the grammar, compared symbol for symbol; rules checked for the terminator, symbol range against getBits(), expandRule and save/loadNoSeq.', 'property-based testing (rapidcheck), decompression round trip + grammar invariants'),
        "stages": comp_stages([("RePair", 0, 2500, 500), ("RePair", 1, 2500, 500), ("RePair", 2, 2500, 500), ("RePair", 3, 2500, 500), ("RePair", 4, 2500, 500), ("RePair", 5, 2500, 500), ("RePair", 6, 400, 300)],
                              floors={"repair_nested_rules": 200, "repair_no_rules": 20, "repair_single_string": 50}),
        "rule": "sub-class 6: case = history of 200-12 000 insert / delete / lookup operations on the compressor's pair table (8-256 cells, <= 24 live pairs) against a map model, invariant: an empty cell remains. Other sub-classes: case = integer sequence of 1..400 strings with terminators + maxchar; non-trivial = >=1 rule whose expansion contains "
                "another rule, or zero rules on >=2 strings; distinct = hash of the case bytes",
        "assumptions": ["the grammar is read through -fno-access-control in the harness translation unit"],
    },
    "C09": {
        "level_text": 'Generated (string set, overhead, cut size, thread count 2..8, schedule) cases: the HASHRPDACBlocks constructor runs under the deterministic scheduler, every synchronisation call being a scheduling point steered by the generated schedule (random or PCT-style priorities); its image must equal the single-thread image byte for byte, every ID must extract and the extracted strings must be the input set. Two further stages: (enum) all schedules with a bounded number of pre-emptions for 18 tiny configurations (2-4 one-string blocks, 1-3 threads), by depth-first search over the recorded choice points; (native) 50-6000 tiny blocks built with real threads under the OS scheduler in an ASan build, same oracle plus crash / sanitizer reports - this reaches unsynchronised accesses of the producer, which are atomic under a scheduler that pre-empts only at synchronisation calls.',
        "level_note": SCHED_NOTE, "technique": "schedule-generating property-based testing: deterministic scheduler (pthread interposition) + rapidcheck, differential against the single-thread build", "family": "sched",
        "engine": "rapidcheck bytes -> (case, schedule); sched/vsched.cpp owns the interleaving; each case in a forked child",
        "stages": (lambda tier: sched_stages("C09", 500, 700, floors={"blocks_ge2": 100, "blocks_ge4": 30, "threads_ge3": 100}, nontrivial_floor=100, thorough_mult=15)(tier)
                   + [{"name": "enum", "binary": "sched_rc", "plan": [(s, 1, 10) for s in range(18)], "param": "enum:3:150000" if tier == "thorough" else "enum:2:12000",
                       "label_floors": {"enum_complete": 4}, "nontrivial_floor": 10, "stall_s": 3600}]
                   + [{"name": "native", "binary": "native_rc", "plan": [(0, 30 * (10 if tier == "thorough" else 1), 60)] * 16,
                       "label_floors": {"blocks_ge1000": 20}, "nontrivial_floor": 100, "nondeterministic": True}]),
        "rule": "case = (S of 3..600 strings, overhead, cut, threads, schedule bytes); non-trivial = >=2 blocks and >=1 pre-emption of a "
                "runnable thread at a synchronisation point; distinct = hash of the case bytes. enum stage: case = configuration (2-4 one-string "
                "blocks, 1-3 threads, overhead 25|0), every schedule with <=2 pre-emptions (cap 12 000; thorough 3 / 150 000), counter enum_schedules. "
                "native stage: case = (50..6000 short strings, cut 1..48, 1..16 threads) built with real threads in an ASan build; non-trivial = >=50 blocks",
        "assumptions": ["a deadlock under a generated schedule is C10's event; for C09 the case is inconclusive",
                        "two single-thread builds must agree first (otherwise C08's matter, case inconclusive)"],
    },
    "C10": {
        "level_text": 'Generated (workers 1..4, tasks 0..12, producer protocol, schedule) cases: WorkerPool runs under the deterministic scheduler; oracle: every task counter == 1, no task entered while running, no state in which all threads are blocked (this turns "wait_workers returns in every schedule" into a per-schedule safety check). A second stage enumerates, for each of 36 small configurations (1-3 workers, 0-3 tasks, 3 producer protocols), EVERY schedule with at most 2 pre-emptions of a runnable thread (1 with three workers; 3 / 2 in the thorough tier) by depth-first search over the recorded choice points, capped at 40 000 (400 000) schedules per configuration; labels enum_complete / enum_capped say how many configurations were exhausted.',
        "level_note": SCHED_NOTE, "technique": "schedule-generating property-based testing: deterministic scheduler (pthread interposition) + rapidcheck; deadlock = no enabled thread", "family": "sched",
        "engine": "rapidcheck bytes -> (pool scenario, schedule); sched/vsched.cpp owns the interleaving; each case in a forked child",
        "stages": (lambda tier: sched_stages("C10", 6000, 260, floors={"threads_ge3": 2000, "preemptions_ge3": 2000, "notify_without_waiter": 500}, nontrivial_floor=2000, thorough_mult=10)(tier)
                   + [{"name": "enum", "binary": "sched_rc", "plan": [(s, 1, 10) for s in range(36)], "param": "enum:3:400000" if tier == "thorough" else "enum:2:40000",
                       "label_floors": {"enum_complete": 12}, "nontrivial_floor": 20, "stall_s": 3600}]),
        "rule": "case = (workers, tasks, protocol in {stop-after-add, stop-after-completion-cv, last-task-stops}, schedule bytes, strategy "
                "random|PCT); non-trivial = >=1 task and >=1 pre-emption of a runnable thread; distinct = hash of the case bytes; enumeration stage: "
                "case = configuration, counter enum_schedules = schedules executed (each under the same oracle)",
        "assumptions": ["tasks are never added after stop (the statement covers tasks handed over before the stop)"],
    },
    "C11": {
        "level_text": 'Generated multi-block HASHRPDACBlocks builds (2-8 blocks of 8-60 KB, or 30-4000 blocks of one to a few strings so that workers finish while the producer is still queueing; 2/3/4/8 worker threads, generated cut and overhead) and WorkerPool runs (2-4 workers, 1-40 tasks with private busy work, three producer protocols) executed with real threads under ThreadSanitizer; every data-race report is an event.',
        "level_note": "Trusted base: clang 14 ThreadSanitizer (happens-before detection on the schedules the OS produced in this run), harness/race_case.cpp. A race that no executed schedule exhibits stays unseen; overlap of tasks is measured (label tasks_overlapped) but never used for a verdict.",
        "technique": "generated-input campaign with ThreadSanitizer as the oracle (dynamic race detection)", "family": "race",
        "engine": "rapidcheck bytes -> (build | pool) scenario; TSan build of /repo; real threads",
        "stages": (lambda tier: [{"name": "race", "binary": "race_rc", "plan": [(i % 2, (60 if i % 2 == 0 else 800) * (10 if tier == "thorough" else 1), 200) for i in range(16)],
                                  "label_floors": {"tasks_overlapped": 50, "blocks_ge4": 10, "blocks_ge100": 10}, "nontrivial_floor": 100, "nondeterministic": True}]),
        "rule": "case = parallel build (strings, cut, threads, overhead) or pool run (workers, tasks, protocol, per-task work); "
                "non-trivial = >=2 blocks with >=2 threads | >=2 workers and >=2 tasks; distinct = hash of the case bytes",
        "assumptions": ["lock-order inversion reports are listed but are not violations of C11's text"],
    },
    "C13": {
        **_meta('Every iterator the API returns is drained under a canary/strlen/ASan protocol check and compared with extract(k) and the reference order; scans are steered to start inside buckets.', 'property-based testing (rapidcheck), iterator protocol oracle + reference model'),
        "stages": dict_stages(ALL, 50, 10),
        "rule": "case as C01; extractTable drained (count, order, k-th == extract(k), lengths, hasNext protocol); "
                "extractPrefix/locatePrefix/extractSubstr/locateSubstr iterators drained with canary lengths and a "
                "runaway bound of n+2; prefixes chosen so scans start inside buckets. non-trivial = n>=3 and (front "
                "coding: a scan starting at offset !=0 crossing a bucket boundary, or n mod bucket in {0,1})",
        "assumptions": DICT_ASSUME,
    },
    "C15": {
        **_meta('numElements/maxLength compared with the reference set on built and reloaded objects of every kind.', 'property-based testing (rapidcheck), reference model'),
        "stages": dict_stages(ALL, 60, 10),
        "rule": "case as C01; numElements()==|S| and L<=maxLength()<=L+1 on the fresh and both loaded objects. "
                "non-trivial = n>=2 and the longest member is not the first",
        "assumptions": DICT_ASSUME,
    },
    "C16": {
        **_meta('Every unsupported (kind, operation) pair is called with generated arguments, result must be null/0, and the object is re-queried afterwards; unknown type tags and every foreign kind loader are tried on a valid image and must yield NULL.', 'property-based testing (rapidcheck), fail-safe oracle + follow-up round trip'),
        "stages": dict_stages(ALL, 50, 8),
        "rule": "case as C01; every operation the kind does not provide is called with well-formed arguments "
                "(result must be NULL / 0 / empty) and followed by a locate+extract of a member on the same object; then the "
                "case's own image is offered to StringDictionary::load under ~60 unknown 32-bit tags (neighbours of known tags, known "
                "tags with high bits, random; body = rest of a valid image | random | empty) and to every other kind's own loader: all "
                "must return NULL without a sanitizer report. non-trivial = >=1 unsupported call followed by a correct supported call",
        "assumptions": DICT_ASSUME,
    },
}
