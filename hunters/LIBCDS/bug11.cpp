// bug11 (secondary: combination not used by the dictionaries, which build their wavelet trees over
//       BitSequenceRG / BitSequenceRRR): WaveletTree and WaveletTreeNoptrs give wrong access / rank
//       answers when their bitmaps are BitSequenceSDArray.  Both trees rely on
//       bitmap->rank1((size_t)-1) == 0 (Noptrs: rank1(start - 1) with start == 0; pointer tree:
//       child->rank(symbol, rank0(pos) - 1) when the symbol has not occurred yet), which holds for
//       RG and RRR, but BitSequenceSDArray::rank1 (like the BitSequence base class) returns
//       (size_t)-1 for every i >= length.   (property C19, "the other bundled variants")
//
// Build (from the worktree root, after building the library into _build; the library keeps its
// assert()s in Release mode, so the Noptrs part may also stop with "Assertion `pos >= start ..."):
//   g++ -std=c++17 -O1 -g -fno-access-control -I. -Ilibcds/includes FINDINGS/bug11.cpp \
//       _build/libCSD.a _build/libcds/libcds.a -o FINDINGS/bug11 && FINDINGS/bug11
// exit 0 = property holds; non-zero = violated.
#include <cstdio>
#include <vector>
#include <Sequence.h>
#include <BitSequenceBuilder.h>
#include <Mapper.h>
#include <wt_coder_huff.h>
using namespace cds_static;

static int check(Sequence *q, const std::vector<uint> &s, const char *name) {
  int bad = 0;
  for (uint c = 1; c <= 3; c++) {
    size_t cnt = 0;
    for (size_t i = 0; i < s.size(); i++) {
      if (s[i] == c) cnt++;
      size_t r = q->rank(c, i);
      if (r != cnt) { if (bad < 4) printf("%s: rank(%u,%zu) = %zu, expected %zu\n", name, c, i, r, cnt); bad++; }
    }
  }
  return bad;
}

int main() {
  std::vector<uint> s = {1, 1, 2, 1, 3, 2, 1, 1, 3, 2, 1, 1};
  int bad = 0;
  {
    std::vector<uint> c(s);
    Mapper *am = new MapperNone();
    am->use();
    wt_coder *wc = new wt_coder_huff(c.data(), c.size(), am);
    WaveletTree *wt = new WaveletTree(c.data(), c.size(), wc, new BitSequenceBuilderSDArray(), am, false);
    bad += check(wt, s, "WaveletTree/SDArray");
    delete wt;
    am->unuse();
  }
  {
    std::vector<uint> c(s);
    Mapper *am = new MapperNone();
    am->use();
    wt_coder *wc = new wt_coder_huff(c.data(), c.size(), am);
    WaveletTree *wt = new WaveletTree(c.data(), c.size(), wc, new BitSequenceBuilderRG(4), am, false);
    int b = check(wt, s, "WaveletTree/RG");
    printf("same tree over BitSequenceRG: %d wrong answers\n", b);
    bad += b;
    delete wt;
    am->unuse();
  }
  fflush(stdout);
  {
    std::vector<uint> c(s);
    Mapper *am = new MapperNone();
    am->use();
    WaveletTreeNoptrs *wt = new WaveletTreeNoptrs(c.data(), c.size(), new BitSequenceBuilderSDArray(), am, false);
    bad += check(wt, s, "WaveletTreeNoptrs/SDArray");
    for (size_t i = 0; i < s.size(); i++) {
      uint a = wt->access(i);
      if (a != s[i]) { printf("WaveletTreeNoptrs/SDArray: access(%zu) = %u, expected %u\n", i, a, s[i]); bad++; break; }
    }
    delete wt;
    am->unuse();
  }
  if (bad) { printf("VIOLATED: wavelet trees over BitSequenceSDArray answer wrongly (%d mismatches)\n", bad); return 1; }
  printf("OK\n");
  return 0;
}
