// bug3: StatCoder::encodeString() writes one byte past its output buffer when every symbol of the
//       string has a 32-bit codeword (the longest length the Codeword type supports).
//       (property C18, encoder side: "encodeString == bit concatenation of the codewords";
//        also a heap overflow, C07)
//
// Build (from the worktree root, after building the library into _build):
//   g++ -std=c++17 -O1 -g -fno-access-control -I. -Ilibcds/includes FINDINGS/bug3.cpp \
//       _build/libCSD.a _build/libcds/libcds.a -o FINDINGS/bug3 && FINDINGS/bug3
//   (or build with -fsanitize=address against _asan/*.a: ASan reports
//    "heap-buffer-overflow WRITE of size 1 ... StatCoder::encodeSymbol StatCoder.cpp:45")
// exit 0 = property holds; non-zero = violated.
//
// Input: Huffman table for 256 frequencies, all >= 1: symbols 0..231 frequency 1, symbols
// 232..255 = 232*{1,2,3,5,8,...} (total 45568744 < 2^32).  Longest codewords have exactly 32 bits
// (symbol 1 is one of them); the table itself is valid.  Encoding the 1-symbol string {1} produces
// exactly 4 bytes, and encodeSymbol() then executes text[4] = 0 on the 4-byte buffer.
#include <cstdio>
#include <cstdlib>
#include <cstring>
#include <new>
#include <vector>
#include "Huffman/Huffman.h"
#include "utils/Coder/StatCoder.h"

// every new[] block gets a 16-byte canary behind it
static const size_t PAD = 16;
static void *lastPtr = 0;
static size_t lastSize = 0;
void *operator new[](size_t n) {
  unsigned char *p = (unsigned char *)malloc(n + PAD);
  if (!p) throw std::bad_alloc();
  memset(p + n, 0xAB, PAD);
  lastPtr = p;
  lastSize = n;
  return p;
}
void operator delete[](void *p) noexcept { free(p); }
void operator delete[](void *p, size_t) noexcept { free(p); }

int main() {
  const int k = 24;
  std::vector<uint> f(256, 1);
  unsigned long S = 256 - k, a = 1, b = 2, total = 0;
  for (int i = 0; i < k; i++) { f[256 - k + i] = (uint)(a * S); unsigned long c = a + b; a = b; b = c; }
  for (uint x : f) total += x;
  Huffman *h = new Huffman(f.data());
  Codeword *cw = h->obtainCodewords();
  printf("total frequency = %lu, longest codeword = %zu bits, symbol 1 has %u bits\n", total, h->maxLength(), cw[1].get_bits());
  if (cw[1].get_bits() != 32) { printf("unexpected table, cannot run the check\n"); return 0; }

  StatCoder coder(cw);
  unsigned char str[1] = {1};
  uint encLen = 0, offset = 0;
  unsigned char *enc = coder.encodeString(str, 1, &encLen, &offset);
  printf("encodeString: buffer of %zu bytes, encLen=%u offset=%u\n", lastSize, encLen, offset);
  if (enc != lastPtr) { printf("(buffer not tracked)\n"); return 0; }
  int bad = 0;
  for (size_t i = 0; i < PAD; i++)
    if (enc[lastSize + i] != 0xAB) { printf("byte %zu past the end of the %zu-byte buffer was overwritten with 0x%02x\n", i, lastSize, enc[lastSize + i]); bad++; }
  if (bad) { printf("VIOLATED: StatCoder::encodeString wrote outside its buffer\n"); return 1; }
  printf("OK\n");
  return 0;
}
