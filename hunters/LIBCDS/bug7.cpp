// bug7 (secondary): WaveletTreeNoptrs::rank(c, i) for a symbol c >= 2^height (i.e. above the
//       largest symbol of the sequence, rounded up to a power of two) does not return 0: only the
//       low `height` bits of c are looked at, so the call answers rank(c mod 2^height, i).
//       (property C19: "rank(c,i) exactly as defined on the plain symbol sequence"; companion of
//        the already known WaveletTree::rank crash for symbols without a codeword)
//
// Build (from the worktree root, after building the library into _build):
//   g++ -std=c++17 -O1 -g -fno-access-control -I. -Ilibcds/includes FINDINGS/bug7.cpp \
//       _build/libCSD.a _build/libcds/libcds.a -o FINDINGS/bug7 && FINDINGS/bug7
// exit 0 = property holds; non-zero = violated.
#include <cstdio>
#include <vector>
#include <Sequence.h>
#include <BitSequenceBuilder.h>
#include <Mapper.h>
using namespace cds_static;

int main() {
  std::vector<uint> s = {3, 1, 4, 1, 5, 2, 6, 5, 3, 5};   // max symbol 6 -> height 3
  std::vector<uint> copy(s);
  Mapper *am = new MapperNone();
  am->use();
  WaveletTreeNoptrs *wt = new WaveletTreeNoptrs(copy.data(), copy.size(), new BitSequenceBuilderRG(20), am, false);
  int bad = 0;
  for (uint c = 0; c <= 40; c++) {
    size_t cnt = 0;
    for (size_t i = 0; i < s.size(); i++) {
      if (s[i] == c) cnt++;
      size_t r = wt->rank(c, i);
      if (r != cnt) { printf("rank(%u,%zu) = %zu, expected %zu\n", c, i, r, cnt); bad++; break; }
    }
  }
  delete wt;
  am->unuse();
  if (bad) { printf("VIOLATED: WaveletTreeNoptrs::rank aliases symbols above the alphabet (%d symbols wrong)\n", bad); return 1; }
  printf("OK\n");
  return 0;
}
