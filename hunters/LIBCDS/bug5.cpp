// bug5: the public default constructor LogSequence::LogSequence() leaves every member
//       uninitialised (in particular the data pointer), while the destructor unconditionally runs
//       delete[] array: constructing and destroying such an object frees a garbage pointer.
//       (property C17 "all constructors" / memory safety)
//
// Build (from the worktree root, after building the library into _build):
//   g++ -std=c++17 -O1 -g -fno-access-control -I. -Ilibcds/includes FINDINGS/bug5.cpp \
//       _build/libCSD.a _build/libcds/libcds.a -o FINDINGS/bug5 && FINDINGS/bug5
// exit 0 = property holds; non-zero = violated.
#include <cstdio>
#include <cstdlib>
#include <cstring>
#include <new>
#include "utils/LogSequence.h"

int main() {
  // construct the object in storage pre-filled with a recognisable pattern
  alignas(LogSequence) unsigned char storage[sizeof(LogSequence)];
  memset(storage, 0x5A, sizeof(storage));
  LogSequence *ls = new (storage) LogSequence();
  size_t pattern;
  memset(&pattern, 0x5A, sizeof(pattern));
  printf("after LogSequence(): array=%p numentries=0x%zx numbits=%u\n", (void *)ls->array, ls->numentries, (unsigned)ls->numbits);
  if ((size_t)ls->array == pattern) {
    printf("VIOLATED: LogSequence() leaves 'array' uninitialised; ~LogSequence() would delete[] %p\n", (void *)ls->array);
    // (running the destructor here aborts: free(): invalid pointer / SIGSEGV)
    return 1;
  }
  ls->~LogSequence();
  printf("OK\n");
  return 0;
}
