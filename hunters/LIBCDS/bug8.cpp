// bug8 (secondary, operation not listed in C19 but part of the BitSequence interface):
//       BitSequenceSDArray::selectNext1(0) skips a 1 stored at position 0: it returns the position
//       of the next 1 (or a value >= length) instead of 0.  BitSequenceRG and BitSequenceRRR return
//       0.  (libcds' own testBitSequence.cpp sidesteps this by only checking i > 0.)
//
// Build (from the worktree root, after building the library into _build):
//   g++ -std=c++17 -O1 -g -fno-access-control -I. -Ilibcds/includes FINDINGS/bug8.cpp \
//       _build/libCSD.a _build/libcds/libcds.a -o FINDINGS/bug8 && FINDINGS/bug8
// exit 0 = property holds; non-zero = violated.
#include <cstdio>
#include <BitSequence.h>
using namespace cds_static;

int main() {
  uint raw[2] = {0x00000111u, 0};   // bits 0, 4 and 8 set, length 40
  BitSequence *bs[3] = {new BitSequenceRG(raw, 40, 4), new BitSequenceRRR(raw, 40, 8), new BitSequenceSDArray(raw, 40)};
  const char *name[3] = {"RG", "RRR", "SDArray"};
  int bad = 0;
  for (int k = 0; k < 3; k++) {
    size_t a = bs[k]->selectNext1(0), b = bs[k]->selectNext1(1), c = bs[k]->selectNext1(4);
    printf("%-8s selectNext1(0)=%zu selectNext1(1)=%zu selectNext1(4)=%zu  (expected 0 4 4)\n", name[k], a, b, c);
    if (a != 0 || b != 4 || c != 4) bad++;
    delete bs[k];
  }
  if (bad) { printf("VIOLATED: selectNext1 disagrees with the plain definition\n"); return 1; }
  printf("OK\n");
  return 0;
}
