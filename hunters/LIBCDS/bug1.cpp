// bug1: Hu-Tucker code construction runs out of the 32-bit Codeword for deep trees:
//       HuTucker::obtainCodewords() performs a wild memory access (usually SIGSEGV) or
//       returns a table that is not prefix-free / not ordered.   (property C18)
//
// Build (from the worktree root, after building the library into _build):
//   g++ -std=c++17 -O1 -g -fno-access-control -I. -Ilibcds/includes FINDINGS/bug1.cpp \
//       _build/libCSD.a _build/libcds/libcds.a -o FINDINGS/bug1 && FINDINGS/bug1
//   (with the ASan build: add -fsanitize=address,undefined and link _asan/libCSD.a _asan/libcds/libcds.a)
// exit 0 = property holds; non-zero (or a crash by signal) = violated.
//
// Input: a frequency vector over 256 symbols, every frequency >= 1 (as the dictionaries
// guarantee): symbols 0..33 carry the Fibonacci numbers 1,1,2,3,5,...,F(34)=5702887, all other
// symbols have frequency 1.  Total = 14930573, i.e. the statistics of a ~15 MB text.
// The optimal alphabetic tree is a chain more than 32 levels deep (33 Fibonacci symbols, total
// 9227687, still fit: 32 levels), so symbols 0 and 1 need codewords longer than 32 bits.
#include <cstdio>
#include <cstdlib>
#include <csignal>
#include <string>
#include <vector>
#include <unistd.h>
#include "HuTucker/HuTucker.h"

static void onsig(int s) {
  const char m[] = "VIOLATED: HuTucker::obtainCodewords() crashed (wild access in HuTucker::encodeNode)\n";
  if (write(1, m, sizeof(m) - 1)) {}
  _exit(2);
  (void)s;
}

int main() {
  signal(SIGSEGV, onsig);
  signal(SIGBUS, onsig);
  std::vector<uint> f(256, 1);
  unsigned long a = 1, b = 1, total = 0;
  for (int i = 0; i < 34; i++) { f[i] = (uint)a; unsigned long c = a + b; a = b; b = c; }
  for (uint x : f) total += x;
  printf("total frequency = %lu\n", total);
  fflush(stdout);

  HuTucker *ht = new HuTucker(f.data());
  Codeword *cw = ht->obtainCodewords();

  int bad = 0;
  std::vector<std::string> code(256);
  long double kraft = 0;
  for (int i = 0; i < 256; i++) {
    uint bits = cw[i].get_bits(), c = cw[i].get_codeword();
    if (bits == 0 || bits > 32) { if (bad < 5) printf("symbol %d: codeword length %u does not fit the 32-bit Codeword\n", i, bits); bad++; continue; }
    for (int k = (int)bits - 1; k >= 0; k--) code[i].push_back(((c >> k) & 1) ? '1' : '0');
    kraft += 1.0L / (1ull << bits);
  }
  for (int i = 0; i + 1 < 256 && !bad; i++) {
    if (!(code[i] < code[i + 1])) { printf("order broken between %d and %d\n", i, i + 1); bad++; }
    if (code[i + 1].compare(0, code[i].size(), code[i]) == 0) { printf("code %d is a prefix of code %d\n", i, i + 1); bad++; }
  }
  if (!bad && kraft != 1.0L) { printf("Kraft sum %.12Lf != 1\n", kraft); bad++; }
  if (bad) { printf("VIOLATED: Hu-Tucker table is not a valid prefix-free ordered code\n"); return 1; }
  printf("OK\n");
  return 0;
}
