// bug2: Huffman codewords longer than 32 bits are silently truncated: the table returned by
//       Huffman::obtainCodewords() is not prefix-free (several symbols share one truncated
//       codeword and carry a length the 32-bit Codeword cannot hold), and Huffman::encode()
//       destroys previously written bits / writes far outside the stream (bitzero()).
//       (property C18: "for every symbol-frequency vector the Huffman code table is prefix-free
//       and complete", quantifier "Fibonacci-like giving long codewords")
//
// Build (from the worktree root, after building the library into _build):
//   g++ -std=c++17 -O1 -g -fno-access-control -I. -Ilibcds/includes FINDINGS/bug2.cpp \
//       _build/libCSD.a _build/libcds/libcds.a -o FINDINGS/bug2 && FINDINGS/bug2
// exit 0 = property holds; non-zero (or a crash by signal) = violated.
//
// Input: 256 frequencies, all >= 1: symbols 0..230 have frequency 1 (they form a balanced
// subtree of weight S=231 and height 8), symbols 231..255 have S*1, S*2, S*3, S*5, S*8, ...
// (Fibonacci multiples).  Total 73414110 (< 2^32).  The Huffman tree is an 8-level subtree
// below a 25-level chain: the longest codewords have 33 bits.
#include <cstdio>
#include <cstdlib>
#include <csignal>
#include <string>
#include <vector>
#include <algorithm>
#include <unistd.h>
#include "Huffman/Huffman.h"

static void onsig(int) {
  const char m[] = "VIOLATED: crash inside Huffman::encode (bitzero writes outside the stream)\n";
  if (write(1, m, sizeof(m) - 1)) {}
  _exit(3);
}

int main() {
  const int k = 25;
  std::vector<uint> f(256, 1);
  unsigned long S = 256 - k, a = 1, b = 2, total = 0;
  for (int i = 0; i < k; i++) { f[256 - k + i] = (uint)(a * S); unsigned long c = a + b; a = b; b = c; }
  for (uint x : f) total += x;
  printf("total frequency = %lu\n", total);

  Huffman *h = new Huffman(f.data());
  printf("maxLength() = %zu\n", h->maxLength());
  Codeword *cw = h->obtainCodewords();

  int bad = 0;
  std::vector<std::string> code(256);
  for (int i = 0; i < 256; i++) {
    uint bits = cw[i].get_bits(), c = cw[i].get_codeword();
    if (bits == 0 || bits > 32) { if (bad < 3) printf("symbol %d: codeword length %u does not fit the 32-bit Codeword (stored codeword 0x%x)\n", i, bits, c); bad++; }
    for (int j = (int)std::min(bits, 32u) - 1; j >= 0; j--) code[i].push_back(((c >> j) & 1) ? '1' : '0');
  }
  std::vector<int> idx(256);
  for (int i = 0; i < 256; i++) idx[i] = i;
  std::sort(idx.begin(), idx.end(), [&](int x, int y) { return code[x] < code[y]; });
  int clashes = 0;
  for (int i = 0; i + 1 < 256; i++)
    if (code[idx[i + 1]].compare(0, code[idx[i]].size(), code[idx[i]]) == 0) {
      if (clashes < 3) printf("stored code of symbol %d (%s) is a prefix of / equal to the code of symbol %d (%s)\n", idx[i], code[idx[i]].c_str(), idx[i + 1], code[idx[i + 1]].c_str());
      clashes++;
    }
  if (clashes) printf("%d prefix clashes in the codeword table\n", clashes);
  bad += clashes;

  fflush(stdout);
  // stream encoder: write a short codeword, then a 33-bit one right behind it, decode both
  signal(SIGSEGV, onsig);
  signal(SIGBUS, onsig);
  std::vector<uint> stream(64, 0);
  int longsym = -1;
  for (int i = 0; i < 256; i++) if (cw[i].get_bits() > 32) { longsym = i; break; }
  if (longsym >= 0) {
    size_t p = 0;
    for (int r = 0; r < 31; r++) p = h->encode(255, stream.data(), p);  // symbol 255 has a 1-bit code
    uint before = stream[0];
    size_t p2 = h->encode((uint)longsym, stream.data(), p);
    uint s1 = 0, s2 = 0;
    size_t q = 0;
    for (int r = 0; r < 31; r++) q = h->decode(&s1, stream.data(), q);
    size_t q2 = h->decode(&s2, stream.data(), q);
    if ((stream[0] & ((1u << p) - 1)) != (before & ((1u << p) - 1))) { printf("encode() of symbol %d at bit %zu destroyed the %zu bits written before it (word 0x%x -> 0x%x)\n", longsym, p, p, before, stream[0]); bad++; }
    if (s1 != 255 || s2 != (uint)longsym || q2 != p2) { printf("decode(encode) round trip failed: got %u,%u expected 255,%d (end %zu vs %zu)\n", s1, s2, longsym, q2, p2); bad++; }
  }
  if (bad) { printf("VIOLATED: Huffman code with codewords longer than 32 bits is broken\n"); return 1; }
  printf("OK\n");
  return 0;
}
