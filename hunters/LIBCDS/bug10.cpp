// bug10 (secondary): createHuff() accumulates subtree weights in 32-bit `uint freq`.  When the
//       frequencies sum to 2^32 or more (statistics of a text of more than 4 GiB; in this reproducer 1.4e10; sums just above 2^32 only wrap the root and are harmless; every single counter still
//       fits a uint) internal weights wrap around, the sorted work list goes out of order and the
//       construction reads tree[-1] (crash) or assigns depths that are not a prefix code.
//       (property C18: "for every symbol-frequency vector ... prefix-free and complete")
//
// Build (from the worktree root, after building the library into _build):
//   g++ -std=c++17 -O1 -g -fno-access-control -I. -Ilibcds/includes FINDINGS/bug10.cpp \
//       _build/libCSD.a _build/libcds/libcds.a -o FINDINGS/bug10 && FINDINGS/bug10
//   (ASan build: "heap-buffer-overflow READ ... createHuff huff.cpp:108 ... 20 bytes to the left")
// exit 0 = property holds; non-zero (or crash) = violated.
#include <cstdio>
#include <cstdlib>
#include <csignal>
#include <vector>
#include <unistd.h>
#include "Huffman/Huffman.h"

static void onsig(int) {
  const char m[] = "VIOLATED: crash inside createHuff / obtainCodewords (32-bit weight overflow)\n";
  if (write(1, m, sizeof(m) - 1)) {}
  _exit(2);
}

int main() {
  signal(SIGSEGV, onsig);
  signal(SIGBUS, onsig);
  signal(SIGABRT, onsig);
  std::vector<uint> f(256);
  unsigned long sum = 0;
  for (int i = 0; i < 256; i++) { f[i] = (1u << 24) + (uint)i * 300007u; sum += f[i]; }
  printf("sum of frequencies = %lu (2^32 = %lu)\n", sum, 1ul << 32);
  fflush(stdout);
  Huffman *h = new Huffman(f.data());
  Codeword *cw = h->obtainCodewords();
  long double kraft = 0;
  uint mx = 0;
  for (int i = 0; i < 256; i++) { uint b = cw[i].get_bits(); if (b > mx) mx = b; if (b >= 1 && b <= 32) kraft += 1.0L / (1ull << b); }
  printf("longest codeword %u bits, Kraft sum %.10Lf\n", mx, kraft);
  if (kraft != 1.0L || mx > 32) { printf("VIOLATED: not a complete prefix code\n"); return 1; }
  printf("OK\n");
  return 0;
}
