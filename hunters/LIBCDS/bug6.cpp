// bug6 (secondary, outside the "zeros replaced by ones" quantifier of C18):
//       Huffman built from a frequency vector that contains zeros -- Huffman(uint *occ) and the
//       Huffman(Array &) constructor, which starts its counters at 0 -- cannot produce its code
//       table: obtainCodewords() encodes all 256 symbols, and encodeHuff() for a symbol without a
//       codeword (spos == ~0) walks num_enc[] downwards past index 0 (out-of-bounds read, garbage
//       codeword or crash).
//
// Build (from the worktree root, after building the library into _build):
//   g++ -std=c++17 -O1 -g -fno-access-control -I. -Ilibcds/includes FINDINGS/bug6.cpp \
//       _build/libCSD.a _build/libcds/libcds.a -o FINDINGS/bug6 && FINDINGS/bug6
//   (ASan build: "heap-buffer-overflow READ of size 4 ... encodeHuff huff.cpp:200 ...
//    4 bytes to the left of 40-byte region")
// exit 0 = property holds; non-zero = violated.
#include <cstdio>
#include <cstdlib>
#include <csignal>
#include <string>
#include <vector>
#include <unistd.h>
#include "Huffman/Huffman.h"

static void onsig(int) {
  const char m[] = "VIOLATED: Huffman::obtainCodewords() crashed on a frequency vector with zeros\n";
  if (write(1, m, sizeof(m) - 1)) {}
  _exit(2);
}

int main() {
  signal(SIGSEGV, onsig);
  signal(SIGBUS, onsig);
  std::vector<uint> f(256, 0);
  f[0] = 50;
  for (int c = 'a'; c <= 'z'; c++) f[c] = 1 + (c * 37) % 100;   // 27 symbols occur, 229 do not
  Huffman *h = new Huffman(f.data());
  printf("built: maxLength=%zu\n", h->maxLength());
  fflush(stdout);
  Codeword *cw = h->obtainCodewords();

  // the symbols that occur must form a prefix-free complete code, and no symbol that does not
  // occur may be given a codeword that collides with them
  int bad = 0;
  std::vector<std::string> code(256);
  long double kraft = 0;
  for (int i = 0; i < 256; i++) {
    uint bits = cw[i].get_bits(), c = cw[i].get_codeword();
    if (f[i] && (bits == 0 || bits > 32)) { printf("symbol %d has length %u\n", i, bits); bad++; continue; }
    if (bits > 32) { printf("absent symbol %d got codeword length %u\n", i, bits); bad++; continue; }
    for (int k = (int)bits - 1; k >= 0; k--) code[i].push_back(((c >> k) & 1) ? '1' : '0');
    if (f[i]) kraft += 1.0L / (1ull << bits);
  }
  if (kraft != 1.0L) { printf("Kraft sum of the occurring symbols = %Lf\n", kraft); bad++; }
  for (int i = 0; i < 256 && bad < 5; i++) {
    if (f[i] || code[i].empty()) continue;
    for (int j = 0; j < 256; j++)
      if (f[j] && (code[j].compare(0, code[i].size(), code[i]) == 0 || code[i].compare(0, code[j].size(), code[j]) == 0)) {
        printf("absent symbol %d was given codeword %s which collides with symbol %d (%s)\n", i, code[i].c_str(), j, code[j].c_str());
        bad++;
        break;
      }
  }
  if (bad) { printf("VIOLATED: code table built from a vector with zero frequencies is unusable\n"); return 1; }
  printf("OK\n");
  return 0;
}
