// bug4: LogSequence::setField / getField accept position == numberOfElements: the range guard is
//       off by one (">" instead of ">="), so instead of throwing the documented exception the call
//       reads / writes the word behind the array (heap overflow when width*length is a multiple
//       of 64) or silently stores into the padding bits of the last word.
//       (property C17, packed integer array: "without disturbing neighbours", memory safety)
//
// Build (from the worktree root, after building the library into _build):
//   g++ -std=c++17 -O1 -g -fno-access-control -I. -Ilibcds/includes FINDINGS/bug4.cpp \
//       _build/libCSD.a _build/libcds/libcds.a -o FINDINGS/bug4 && FINDINGS/bug4
//   (with -fsanitize=address against _asan/*.a: "heap-buffer-overflow ... LogSequence::set_field
//    LogSequence.h:150 ... 0 bytes to the right of 32-byte region")
// exit 0 = property holds; non-zero = violated.
#include <cstdio>
#include <cstdlib>
#include "utils/LogSequence.h"

int main() {
  int bad = 0;
  // 8 entries of 8 bits fill exactly one 64-bit word; we over-allocate by hand so that the stray
  // write is observable without a sanitizer.
  LogSequence *ls = new LogSequence(8, 8);
  size_t *big = new size_t[2];
  big[0] = 0; big[1] = 0x1111111111111111ull;
  delete[] ls->array;
  ls->array = big;                       // same contents, one guard word behind
  for (size_t i = 0; i < 8; i++) ls->setField(i, i + 1);

  bool threw = false;
  try { ls->setField(8, 0xFF); } catch (const char *e) { threw = true; printf("setField(8) threw: %s\n", e); }
  if (!threw) { printf("setField(8, 0xFF) on an 8-entry sequence was accepted\n"); bad++; }
  if (big[1] != 0x1111111111111111ull) { printf("the word behind the array changed: 0x%016zx\n", big[1]); bad++; }

  threw = false;
  try { size_t v = ls->getField(8); printf("getField(8) on an 8-entry sequence returned 0x%zx\n", v); } catch (const char *) { threw = true; }
  if (!threw) bad++;

  // for comparison: position 9 is rejected
  threw = false;
  try { ls->setField(9, 1); } catch (const char *) { threw = true; }
  printf("setField(9) %s\n", threw ? "threw (as documented)" : "was accepted");

  if (bad) { printf("VIOLATED: LogSequence range check is off by one (position == numentries passes)\n"); return 1; }
  printf("OK\n");
  return 0;
}
