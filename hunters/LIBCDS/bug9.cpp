// bug9: DAC_VLS keeps the size of its symbol store in BITS in a 32-bit counter
//       (uint tamLevels / tamCode).  Once symbols * width reaches 2^32 bits (512 MiB of payload)
//       the counter wraps, `levels` is allocated far too small, construction writes hundreds of
//       megabytes past it and access() returns wrong sequences (or the process crashes).
//       (property C17: "the DAC variable-length sequences return for every index exactly the
//        symbol sequence stored ... for all lists of non-empty symbol sequences and symbol widths")
//
// Needs ~1.3 GB of RAM.  Build (from the worktree root, after building the library into _build):
//   g++ -std=c++17 -O1 -g -fno-access-control -I. -Ilibcds/includes FINDINGS/bug9.cpp \
//       _build/libCSD.a _build/libcds/libcds.a -o FINDINGS/bug9 && FINDINGS/bug9
// exit 0 = property holds; non-zero (or a crash by signal) = violated.
//
// Input: 1,350,000 sequences of 100 symbols each, symbol width 32 (values < 2^31), built exactly
// like StringDictionaryRPDAC does: symbols of sequence i followed by -i,
// new DAC_VLS(array, array_length - 1, 32, 100).  135,000,000 * 32 = 4,320,000,000 bits > 2^32.
// (With 1,300,000 sequences = 4,160,000,000 bits everything is correct.)
#include <cstdio>
#include <cstdlib>
#include <csignal>
#include <unistd.h>
#include "utils/DAC_VLS.h"

static void onsig(int) {
  const char m[] = "VIOLATED: crash inside DAC_VLS (levels array under-allocated)\n";
  if (write(1, m, sizeof(m) - 1)) {}
  _exit(2);
}

int main(int argc, char **argv) {
  signal(SIGSEGV, onsig);
  signal(SIGBUS, onsig);
  size_t nseq = argc > 1 ? (size_t)atol(argv[1]) : 1350000;
  const uint len = 100, width = 32;
  size_t total = nseq * (len + 1);
  int *arr = new int[total];
  size_t p = 0;
  unsigned long x = 12345;
  for (size_t i = 0; i < nseq; i++) {
    for (uint k = 0; k < len; k++) {
      x = x * 6364136223846793005ul + 1442695040888963407ul;
      arr[p++] = (int)((x >> 33) & 0x7FFFFFFF);
    }
    arr[p++] = -(int)(i + 1);
  }
  unsigned long bitsNeeded = (unsigned long)nseq * len * width;
  printf("symbols = %zu, payload = %lu bits (2^32 = %lu)\n", nseq * len, bitsNeeded, 1ul << 32);
  fflush(stdout);

  DAC_VLS *d = new DAC_VLS(arr, total - 1, width, len);
  printf("DAC_VLS::tamCode = %u bits\n", d->tamCode);
  fflush(stdout);

  size_t bad = 0, checked = 0;
  for (size_t i = 0; i < nseq; i += (i < 1000 ? 1 : 997)) {
    uint *seq = NULL;
    uint l = d->access(i + 1, &seq);
    size_t base = i * (len + 1);
    bool ok = (l == len);
    for (uint k = 0; ok && k < len; k++) ok = (seq[k] == (uint)arr[base + k]);
    if (!ok) { if (bad < 3) printf("access(%zu) returns a wrong sequence\n", i + 1); bad++; }
    delete[] seq;
    checked++;
  }
  printf("%zu of %zu sampled sequences wrong\n", bad, checked);
  if (bad || d->tamCode != bitsNeeded) { printf("VIOLATED: DAC_VLS bit counter overflowed (tamCode %u != %lu)\n", d->tamCode, bitsNeeded); return 1; }
  printf("OK\n");
  return 0;
}
