// bug1: PFC / RPFC constructors never terminate when the bucket size is a
// multiple of 131072 (2^17): the initial reservation MEMALLOC*bucketsize is
// computed in 32-bit arithmetic, wraps to 0, and Reallocate() doubles 0 forever.
//
// Compile (from /tmp/wt_H_PFC, after building _build):
//   g++ -std=c++17 -O1 -g -I/tmp/wt_H_PFC -I/tmp/wt_H_PFC/libcds/includes \
//     FINDINGS/bug1.cpp _build/libCSD.a _build/libcds/libcds.a -lpthread -o FINDINGS/bug1
// Run: ./FINDINGS/bug1 [bucketsize] [PFC|RPFC]     (default 131072 PFC)
// exit 0 = dictionary built and answers correctly; 1 = wrong answer;
// 2 = constructor did not terminate within 10 s (C07 "terminates", C12).
#include <StringDictionary.h>
#include <csignal>
#include <cstdio>
#include <cstring>
#include <string>
#include <unistd.h>
#include <vector>

static void onAlarm(int) {
  const char m[] = "VIOLATION: constructor still running after 10 s (C07/C12): "
                   "initial reservation wrapped to 0 and Reallocate(0) loops forever\n";
  ssize_t r = write(1, m, sizeof(m) - 1);
  (void)r;
  _exit(2);
}

int main(int argc, char **argv) {
  uint bs = argc > 1 ? (uint)strtoul(argv[1], 0, 10) : 131072u;
  bool rpfc = argc > 2 && !strcmp(argv[2], "RPFC");
  std::vector<std::string> S = {"alpha", "beta", "gamma"};
  size_t tot = 0;
  for (auto &s : S) tot += s.size() + 1;
  uchar *arr = new uchar[tot];
  size_t p = 0;
  for (auto &s : S) { memcpy(arr + p, s.c_str(), s.size() + 1); p += s.size() + 1; }
  signal(SIGALRM, onAlarm);
  alarm(10);
  printf("building %s with bucket size %u ...\n", rpfc ? "RPFC" : "PFC", bs);
  fflush(stdout);
  IteratorDictStringPlain *it = new IteratorDictStringPlain(arr, tot);
  StringDictionary *d = rpfc ? (StringDictionary *)new StringDictionaryRPFC(it, bs)
                             : (StringDictionary *)new StringDictionaryPFC(it, bs);
  alarm(0);
  int bad = 0;
  for (size_t i = 0; i < S.size(); i++) {
    uchar buf[16];
    strcpy((char *)buf, S[i].c_str());
    size_t id = d->locate(buf, S[i].size());
    uint len;
    uchar *e = d->extract(i + 1, &len);
    if (id != i + 1 || !e || S[i] != (char *)e) {
      printf("wrong answer for %s\n", S[i].c_str());
      bad = 1;
    }
    delete[] e;
  }
  delete d;
  printf(bad ? "FAILED\n" : "ok\n");
  return bad;
}
