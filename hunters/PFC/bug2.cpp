// bug2: RPFC decoders write one byte past their scratch buffer `vb`
// (heap-buffer-overflow, C07; also hits C01/C13 paths: extract, locate,
// extractTable, extractPrefix all run the same decoder).
//
// Shape: the longest member s is an internal (non-header) string sharing NO
// prefix with its predecessor, and s = "\x80" + r where r is another internal
// member that also shares no prefix with its predecessor.  The front-coded
// form of r is  0x80 r 0xFF  (VByte(0)=0x80, closing symbol 0xFF) and the
// front-coded form of s is  0x80 0x80 r 0xFF, so Re-Pair turns "0x80 r 0xFF"
// into ONE rule of |s|+1 = maxlength bytes, and s is stored as [0x80][rule].
// decodeString() reads "at least two bytes" into vb = new uchar[maxlength]:
// 1 + maxlength bytes are written.
//
// Compile (from /tmp/wt_H_PFC; ASan build of the library in _asan):
//   g++ -std=c++17 -O1 -g -fsanitize=address,undefined -fno-omit-frame-pointer \
//     -I/tmp/wt_H_PFC -I/tmp/wt_H_PFC/libcds/includes FINDINGS/bug2.cpp \
//     _asan/libCSD.a _asan/libcds/libcds.a -lpthread -o FINDINGS/bug2
// (Also crashes without ASan when linked against _build/libCSD.a: glibc aborts
//  with "free(): invalid next size" / "malloc(): invalid size" because
//  maxlength = 24 makes the stray byte land on the next chunk header.)
// exit 0 = all answers right and no memory error; non-zero = violated.
#include <StringDictionary.h>
#include <cstdio>
#include <cstring>
#include <string>
#include <vector>

int main() {
  std::string r = "bcdefghijklmnopqrstuvw";          // 22 bytes
  std::string s = "\x80" + r;                          // 23 bytes, the longest
  std::vector<std::string> S = {"a", r, s};            // sorted, valid bytes
  size_t tot = 0;
  for (auto &x : S) tot += x.size() + 1;
  uchar *arr = new uchar[tot];
  size_t p = 0;
  for (auto &x : S) { memcpy(arr + p, x.c_str(), x.size() + 1); p += x.size() + 1; }
  StringDictionaryRPFC d(new IteratorDictStringPlain(arr, tot), 4);
  printf("n=%zu maxLength=%u\n", d.numElements(), d.maxLength());
  int bad = 0;
  for (size_t i = 1; i <= S.size(); i++) {
    uint len = 0;
    uchar *e = d.extract(i, &len);                     // i=3 overflows vb
    if (!e || len != S[i - 1].size() || S[i - 1] != (char *)e) {
      printf("extract(%zu) wrong\n", i);
      bad = 1;
    }
    delete[] e;
    std::vector<uchar> q(S[i - 1].size() + 3, 0);
    memcpy(q.data(), S[i - 1].c_str(), S[i - 1].size());
    if (d.locate(q.data(), S[i - 1].size()) != i) {
      printf("locate(#%zu) wrong\n", i);
      bad = 1;
    }
  }
  IteratorDictString *it = d.extractTable();
  size_t k = 0;
  while (it->hasNext()) {
    uint len;
    uchar *e = it->next(&len);
    if (k >= S.size() || S[k] != (char *)e) { printf("table #%zu wrong\n", k + 1); bad = 1; }
    delete[] e;
    k++;
  }
  delete it;
  printf(bad ? "FAILED\n" : "answers ok (no memory error detected)\n");
  return bad;
}
