// bug4 (resource leak, lower severity): every prefix query that finds no
// match leaks memory in PFC and RPFC:
//   * locatePrefix leaks the maxlength-byte header buffer `decoded` when the
//     candidate bucket holds no match (StringDictionaryPFC.cpp:232-233,
//     StringDictionaryRPFC.cpp:332-333: return without delete[] decoded);
//   * extractPrefix leaks the ID iterator returned by locatePrefix when there
//     is no match (StringDictionaryPFC.cpp:308-309, StringDictionaryRPFC.cpp:413-414).
// A dictionary with 20000-byte strings loses ~20 KB per failed query.
// (C07 speaks of memory safety of arbitrary call sequences / C14 of queries
//  having no hidden state; a query that permanently consumes heap is neither.)
//
// Compile (from /tmp/wt_H_PFC):
//   g++ -std=c++17 -O1 -g -I/tmp/wt_H_PFC -I/tmp/wt_H_PFC/libcds/includes \
//     FINDINGS/bug4.cpp _build/libCSD.a _build/libcds/libcds.a -lpthread -o FINDINGS/bug4
// exit 0 = no growth of live heap blocks over 1000 failed queries, 1 = leak.
#include <StringDictionary.h>
#include <cstdio>
#include <cstdlib>
#include <cstring>
#include <new>
#include <string>
#include <vector>

static long g_live = 0, g_bytes = 0;
struct Hdr { size_t n; size_t pad; };
static void *alloc(size_t n) {
  Hdr *h = (Hdr *)malloc(n + sizeof(Hdr));
  if (!h) throw std::bad_alloc();
  h->n = n; g_live++; g_bytes += n;
  return h + 1;
}
static void dealloc(void *p) {
  if (!p) return;
  Hdr *h = (Hdr *)p - 1;
  g_live--; g_bytes -= h->n;
  free(h);
}
void *operator new(size_t n) { return alloc(n); }
void *operator new[](size_t n) { return alloc(n); }
void operator delete(void *p) noexcept { dealloc(p); }
void operator delete[](void *p) noexcept { dealloc(p); }
void operator delete(void *p, size_t) noexcept { dealloc(p); }
void operator delete[](void *p, size_t) noexcept { dealloc(p); }

int main() {
  int bad = 0;
  for (int rpfc = 0; rpfc < 2; rpfc++) {
    std::vector<std::string> S = {"aa", "ab", "ad" + std::string(20000, 'x'), "b"};
    size_t tot = 0;
    for (auto &x : S) tot += x.size() + 1;
    uchar *arr = new uchar[tot];
    size_t p = 0;
    for (auto &x : S) { memcpy(arr + p, x.c_str(), x.size() + 1); p += x.size() + 1; }
    IteratorDictStringPlain *it = new IteratorDictStringPlain(arr, tot);
    StringDictionary *d = rpfc ? (StringDictionary *)new StringDictionaryRPFC(it, 4)
                               : (StringDictionary *)new StringDictionaryPFC(it, 4);
    uchar q[8] = "ac";                      // no member starts with "ac"
    long live0 = g_live, bytes0 = g_bytes;
    for (int i = 0; i < 1000; i++) {
      IteratorDictID *ids = d->locatePrefix(q, 2);
      if (ids->hasNext()) { printf("unexpected match\n"); bad = 1; }
      delete ids;
    }
    long live1 = g_live, bytes1 = g_bytes;
    for (int i = 0; i < 1000; i++) {
      IteratorDictString *strs = d->extractPrefix(q, 2);
      if (strs && strs->hasNext()) { printf("unexpected match\n"); bad = 1; }
      delete strs;
    }
    long live2 = g_live, bytes2 = g_bytes;
    printf("%s: 1000 failed locatePrefix: +%ld live blocks, +%ld bytes; "
           "1000 failed extractPrefix: +%ld live blocks, +%ld bytes\n",
           rpfc ? "RPFC" : "PFC", live1 - live0, bytes1 - bytes0, live2 - live1, bytes2 - bytes1);
    if (live1 != live0 || live2 != live1) bad = 1;
    delete d;
  }
  printf(bad ? "VIOLATION: failed prefix queries leak memory\n" : "ok\n");
  return bad;
}
