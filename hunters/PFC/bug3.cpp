// bug3: the generic loader StringDictionary::load() rewinds the stream to
// offset 0 instead of to the start of the image it was asked to read
// (StringDictionary.cpp:32  fp.seekg(0, fp.beg)).  A PFC/RPFC image that does
// not start at stream offset 0 (second image of a stream, or an image that
// follows an application header) is therefore not reloaded: the loader returns
// the FIRST image of the stream (wrong dictionary, silently) or NULL.
// Property C06 (reload through the generic loader gives an equivalent
// dictionary; images are self-delimiting and can follow one another).
//
// Compile (from /tmp/wt_H_PFC):
//   g++ -std=c++17 -O1 -g -I/tmp/wt_H_PFC -I/tmp/wt_H_PFC/libcds/includes \
//     FINDINGS/bug3.cpp _build/libCSD.a _build/libcds/libcds.a -lpthread -o FINDINGS/bug3
// exit 0 = property holds, 1 = violated.
#include <StringDictionary.h>
#include <cstdio>
#include <cstring>
#include <sstream>
#include <string>
#include <vector>

static StringDictionary *mk(bool rpfc, const std::vector<std::string> &S) {
  size_t tot = 0;
  for (auto &x : S) tot += x.size() + 1;
  uchar *arr = new uchar[tot];
  size_t p = 0;
  for (auto &x : S) { memcpy(arr + p, x.c_str(), x.size() + 1); p += x.size() + 1; }
  IteratorDictStringPlain *it = new IteratorDictStringPlain(arr, tot);
  return rpfc ? (StringDictionary *)new StringDictionaryRPFC(it, 2)
              : (StringDictionary *)new StringDictionaryPFC(it, 2);
}

int main() {
  int bad = 0;
  for (int rpfc = 0; rpfc < 2; rpfc++) {
    std::vector<std::string> A = {"apple", "banana", "cherry"};
    std::vector<std::string> B = {"xylophone", "zebra"};
    StringDictionary *da = mk(rpfc, A), *db = mk(rpfc, B);
    std::ostringstream out;
    da->save(out);
    size_t offB = out.str().size();
    db->save(out);
    std::istringstream in(out.str());
    in.seekg(offB);                      // positioned at the second image
    StringDictionary *l = StringDictionary::load(in, 0);
    const char *kind = rpfc ? "RPFC" : "PFC";
    if (!l) {
      printf("%s: generic load of the 2nd image returned NULL\n", kind);
      bad = 1;
    } else {
      uchar q[16] = "zebra";
      size_t id = l->locate(q, 5);
      uint len = 0;
      uchar *e = l->extract(1, &len);
      printf("%s: 2nd image reloaded: numElements=%zu (expected 2) locate(zebra)=%zu "
             "(expected 2) extract(1)=%s (expected xylophone) stream pos=%ld (expected %zu)\n",
             kind, l->numElements(), id, e ? (char *)e : "NULL", (long)in.tellg(),
             out.str().size());
      if (l->numElements() != 2 || id != 2 || !e || strcmp((char *)e, "xylophone") ||
          (size_t)in.tellg() != out.str().size())
        bad = 1;
      delete[] e;
      delete l;
    }
    // the kind's own loader handles the same stream correctly
    std::istringstream in2(out.str());
    in2.seekg(offB);
    StringDictionary *o = rpfc ? StringDictionaryRPFC::load(in2) : StringDictionaryPFC::load(in2);
    uchar q[16] = "zebra";
    printf("%s: own loader on the same position: locate(zebra)=%zu\n", kind,
           o ? (size_t)o->locate(q, 5) : (size_t)999);
    delete o;
    delete da;
    delete db;
  }
  printf(bad ? "VIOLATION (C06): generic loader ignores the stream position\n" : "ok\n");
  return bad;
}
