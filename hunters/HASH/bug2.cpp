// bug2: the generic loader StringDictionary::load() rewinds the stream to
// ABSOLUTE offset 0 after peeking the type tag, so a HASHRPF image (any kind's
// image) that does not start at byte 0 of the stream cannot be loaded through
// it, although the kind's own loader reads it fine from the same position.
// (C06: "reading the bytes back through the generic loader ... several images
// can follow one another in a single stream")
//
// cd /tmp/wt_H_HASH/FINDINGS && g++ -std=c++17 -O1 -g -I.. -I../libcds/includes bug2.cpp ../_build/libCSD.a ../_build/libcds/libcds.a -lpthread -o bug2 && ./bug2
// exit 0 = property holds, 1 = violated.
#include "StringDictionary.h"
#include <cstdio>
#include <cstring>
#include <sstream>
#include <string>
#include <vector>
using namespace std;

static StringDictionaryHASHRPF *build(const vector<string> &S, int overhead) {
  size_t total = 0;
  for (auto &s : S)
    total += s.size() + 1;
  uchar *arr = new uchar[total];
  size_t p = 0;
  for (auto &s : S) {
    memcpy(arr + p, s.c_str(), s.size() + 1);
    p += s.size() + 1;
  }
  return new StringDictionaryHASHRPF(new IteratorDictStringPlain(arr, total),
                                     total, overhead);
}

int main() {
  int bad = 0;
  StringDictionaryHASHRPF *a = build({"alpha", "beta"}, 10);
  StringDictionaryHASHRPF *b = build({"x", "y", "z"}, 10);
  ostringstream o;
  a->save(o);
  size_t lenA = o.str().size();
  b->save(o); // second image follows the first one in the same stream
  string both = o.str();

  // own loader: both images load one after the other (fine)
  {
    istringstream in(both);
    StringDictionary *l1 = StringDictionaryHASHRPF::load(in, HASHRP);
    StringDictionary *l2 = StringDictionaryHASHRPF::load(in, HASHRP);
    printf("own loader    : first %s (n=%zu), second %s (n=%zu)\n",
           l1 ? "ok" : "NULL", l1 ? l1->numElements() : 0, l2 ? "ok" : "NULL",
           l2 ? l2->numElements() : 0);
    if (!l1 || !l2 || l2->numElements() != 3)
      bad++;
    delete l1;
    delete l2;
  }
  // generic loader, stream positioned at the start of the second image
  {
    istringstream in(both);
    in.seekg(lenA);
    StringDictionary *l2 = StringDictionary::load(in, HASHRP);
    printf("generic loader: second image at offset %zu -> %s", lenA,
           l2 ? "loaded" : "NULL\n");
    if (l2) {
      printf(" with n=%zu (expected 3)\n", l2->numElements());
      if (l2->numElements() != 3)
        bad++;
    } else
      bad++;
    delete l2;
  }
  // generic loader, 4 unrelated bytes in front of a single image
  {
    string s = string("HDR!") + both.substr(0, lenA);
    istringstream in(s);
    in.seekg(4);
    StringDictionary *l = StringDictionary::load(in, HASHRP);
    printf("generic loader: image at offset 4 -> %s\n", l ? "loaded" : "NULL");
    if (!l)
      bad++;
    delete l;
  }
  delete a;
  delete b;
  if (bad) {
    printf("VIOLATED (C06): generic loader only works for an image at stream "
           "offset 0\n");
    return 1;
  }
  printf("ok\n");
  return 0;
}
