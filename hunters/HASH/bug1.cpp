// bug1: HASHRPF locate() returns a member's ID for an ABSENT string that
// contains the Re-Pair closing symbol (largest dictionary byte + 1).  (C02, C12)
//
// cd /tmp/wt_H_HASH/FINDINGS && g++ -std=c++17 -O1 -g -I.. -I../libcds/includes bug1.cpp ../_build/libCSD.a ../_build/libcds/libcds.a -lpthread -o bug1 && ./bug1
// (ASan: add -fsanitize=address,undefined and link ../_asan/libCSD.a ../_asan/libcds/libcds.a; run with ASAN_OPTIONS=detect_leaks=0)
//
// exit 0 = property holds, 1 = violated.
#include "StringDictionary.h"
#include <cstdio>
#include <cstring>
#include <set>
#include <sstream>
#include <string>
#include <vector>
using namespace std;

static StringDictionaryHASHRPF *build(const vector<string> &S, int overhead) {
  size_t total = 0;
  for (auto &s : S)
    total += s.size() + 1;
  uchar *arr = new uchar[total];
  size_t p = 0;
  for (auto &s : S) {
    memcpy(arr + p, s.c_str(), s.size() + 1);
    p += s.size() + 1;
  }
  return new StringDictionaryHASHRPF(new IteratorDictStringPlain(arr, total),
                                     total, overhead);
}

static unsigned long loc(StringDictionary *d, const string &q) {
  vector<uchar> b(q.size() + 3, 0); // NUL + 2 spare bytes, writable
  memcpy(b.data(), q.data(), q.size());
  return d->locate(b.data(), q.size());
}

static string ext(StringDictionary *d, size_t id) {
  uint len;
  uchar *s = d->extract(id, &len);
  string r = s ? string((char *)s, len) : string("<NULL>");
  delete[] s;
  return r;
}

// For every pair of members stored next to each other (ID i, ID i+1) ask for
// the absent string  extract(i) + closing + extract(i+1).
static int probe(StringDictionary *d, const vector<string> &S, uchar closing,
                 const char *what) {
  set<string> M(S.begin(), S.end());
  int bad = 0;
  size_t n = d->numElements();
  for (size_t i = 1; i < n; i++) {
    string q = ext(d, i) + string(1, (char)closing) + ext(d, i + 1);
    if (M.count(q))
      continue; // (cannot happen: no member contains the closing byte)
    unsigned long r = loc(d, q);
    if (r != 0) {
      if (bad < 3)
        printf("  %s: locate(\"%s\") = %lu but the string is NOT a member "
               "(extract(%lu) = \"%s\")\n",
               what, q.c_str(), r, r, ext(d, r).c_str());
      bad++;
    }
  }
  return bad;
}

int main() {
  int bad = 0;
  std::cout.setstate(std::ios::failbit);

  // Part A: smallest deterministic case.  n=3, overhead 0 -> table of 3 cells,
  // all occupied, so every probe sequence visits the cell of extract(i).
  {
    vector<string> S = {"a", "b", "c"}; // largest byte 'c' -> closing symbol 'd'
    StringDictionaryHASHRPF *d = build(S, 0);
    printf("Part A: S={a,b,c}, overhead 0, closing symbol 'd'\n");
    bad += probe(d, S, 'd', "built");
    ostringstream o;
    d->save(o);
    for (uint tech = 1; tech <= 3; tech++) {
      istringstream in(o.str());
      StringDictionary *l = StringDictionaryHASHRPF::load(in, tech);
      char w[32];
      snprintf(w, 32, "loaded(opt %u)", tech);
      bad += probe(l, S, 'd', w);
      delete l;
    }
    delete d;
  }

  // Part B: not only full tables.  600 strings over {a,b}, several overheads:
  // a query is answered wrongly whenever its probe sequence meets the cell of
  // its first component before an empty cell.
  {
    vector<string> S;
    for (int len = 1; len <= 9; len++)
      for (int m = 0; m < (1 << len) && S.size() < 600; m++) {
        string s;
        for (int k = len - 1; k >= 0; k--)
          s += (m >> k) & 1 ? 'b' : 'a';
        S.push_back(s);
      }
    // sort bytewise
    set<string> tmp(S.begin(), S.end());
    S.assign(tmp.begin(), tmp.end());
    for (int ov : {0, 10, 50, 100}) {
      StringDictionaryHASHRPF *d = build(S, ov);
      int b = probe(d, S, 'c', "built");
      printf("Part B: n=%zu over {a,b}, overhead %d: %d false positives out "
             "of %zu absent queries of the form s_i + 'c' + s_(i+1)\n",
             S.size(), ov, b, S.size() - 1);
      bad += b;
      delete d;
    }
  }

  if (bad) {
    printf("VIOLATED (C02): %d absent strings were located\n", bad);
    return 1;
  }
  printf("ok\n");
  return 0;
}
