// bug2: C17 / C07 - DAC_VLS keeps the size of its payload IN BITS in a 32-bit
// unsigned (tamLevels / tamCode).  As soon as  symbols * base_bits >= 2^32
// (i.e. a DAC payload of 512 MiB) the product wraps, `levels` is allocated
// with a few words only, and the constructor writes the symbols far outside
// the allocation (heap overflow / SIGSEGV).  Every other index of the class
// (levelsIndex, positions) is a 32-bit SYMBOL count, so the structure is meant
// to hold up to 2^32 symbols; the bit count is the only quantity that overflows.
// RPDAC / HASHRPDAC hand their whole Re-Pair sequence to this class with
// base_bits = bits(rules + terminals) (20..28 for big inputs), so a dictionary
// whose compressed sequence exceeds 512 MiB hits the same overflow.
//
// Input: 131073 sequences of 1024 symbols, symbol width 32 (2^27 + 1024
// symbols), passed exactly like the dictionaries do.  Needs ~1.1 GB of RAM.
//
// Build (from the worktree root):
//   g++ -std=c++17 -O1 -g -fsanitize=address,undefined -I. -Ilibcds/includes \
//       FINDINGS/bug2.cpp _asan/libCSD.a _asan/libcds/libcds.a -lpthread -o /tmp/bug2
//   (or: g++ -std=c++17 -O2 -I. -Ilibcds/includes FINDINGS/bug2.cpp \
//        _build/libCSD.a _build/libcds/libcds.a -lpthread -o /tmp/bug2)
// Exit 0 = every sequence is returned unchanged; non-zero (ASan report,
// SIGSEGV caught -> exit 2, or wrong data -> exit 1) = violated.
#include <csignal>
#include <cstdio>
#include <cstdlib>
#include <unistd.h>

#include "StringDictionary.h"
#include "utils/DAC_VLS.h"

static void onsegv(int) {
  const char m[] = "VIOLATION (C07/C17): SIGSEGV while DAC_VLS stores a payload "
                   "of >= 2^32 bits (tamLevels wrapped)\n";
  if (write(2, m, sizeof(m) - 1)) {
  }
  _exit(2);
}

static inline uint val(size_t i, size_t j) {
  return (uint)(((i * 2654435761u) ^ (j * 40503u)) & 0x7fffffffu);
}

int main() {
  signal(SIGSEGV, onsegv);
  const uint w = 32;
  const size_t seqlen = 1024;
  const size_t nseq = (((size_t)1 << 32) / w) / seqlen + 1; // 131073
  const size_t L = nseq * (seqlen + 1);
  printf("sequences=%zu symbols=%zu width=%u -> %zu payload bits (2^32=%zu)\n",
         nseq, nseq * seqlen, w, nseq * seqlen * w, (size_t)1 << 32);
  fflush(stdout);
  int *list = new int[L];
  size_t p = 0;
  for (size_t i = 0; i < nseq; i++) {
    for (size_t j = 0; j < seqlen; j++)
      list[p++] = (int)val(i, j);
    list[p++] = -(int)(i + 1); // a -i value closes the i-th sequence
  }
  // same calling convention as StringDictionaryRPDAC / HASHRPDAC
  DAC_VLS *d = new DAC_VLS(list, (uint)(L - 1), w, (uint)seqlen);
  delete[] list;

  long bad = 0;
  for (size_t i = 0; i < nseq; i += 97) {
    uint *s;
    uint l = d->access((uint)(i + 1), &s);
    bool ok = (l == seqlen);
    for (size_t j = 0; ok && j < seqlen; j++)
      ok = (s[j] == val(i, j));
    if (!ok && bad++ < 5)
      printf("sequence %zu is not returned as stored\n", i + 1);
    delete[] s;
  }
  delete d;
  if (bad) {
    printf("VIOLATION (C17): %ld sampled sequences differ\n", bad);
    return 1;
  }
  printf("ok\n");
  return 0;
}
