// bug5: C07 ("... and terminates") / C20 / C01 - building an RPDAC (equally a
// HASHRPDAC or a HASHRPDACBlocks block, they share the compressor) never
// returns for some perfectly valid inputs: the Re-Pair compressor spins for
// ever inside HashRP::searchHash() (RePair/Coder/hash.cpp:36-47).
//
// Root cause: the pair hash table is open addressing with deletion marks
// (-2).  deleteHash() turns a cell into -2 and decrements `used`; insertHash()
// only rebuilds the table when `used` (LIVE cells) exceeds 0.75*size, so the
// marks are never reclaimed, while every insertion that lands on a virgin cell
// (-1) consumes it for good.  Re-Pair creates and purges two fresh pairs per
// replaced occurrence, so after ~1.3-1.7 million insertions with fewer than
// 98304 live pairs the initial 131072-cell table has NO -1 cell left, and
// searchHash(), whose loop is `while (H.table[k] != -1)`, cannot terminate
// for a pair that is not in the table.  (Shortly before that point it already
// probes tens of thousands of cells per lookup.)  bug5b.cpp shows the same
// thing on the hash table alone in a fraction of a second.
//
// Input: 2200 distinct strings of 1000 bytes drawn uniformly from 0x02..0xFE
// (2.2 MB of incompressible text), sorted in unsigned byte order.  Measured on
// the unmodified library: inputs of the same shape with 1.5, 3.0, 3.5 and 5.0
// MB build in 45..360 s, while 2.0, 2.2, 2.5, 4.0 and 4.5 MB never finish
// (> 40 min; gdb: one single searchHash() call does not return in 180 s).
//
// Build (from the worktree root; use the optimised library, ASan is 3x slower):
//   g++ -std=c++17 -O2 -I. -Ilibcds/includes FINDINGS/bug5.cpp \
//       _build/libCSD.a _build/libcds/libcds.a -lpthread -o /tmp/bug5
// Run:  /tmp/bug5 [timeout-seconds (default 900)] [nstrings] [length] [dumpfile]
// The build runs in a child process; the parent waits `timeout` seconds.
// Exit 0 = the constructor returned and the dictionary is correct,
//      1 = violated (no termination within the limit, or wrong answers).
#include <algorithm>
#include <chrono>
#include <cstdio>
#include <cstdlib>
#include <cstring>
#include <string>
#include <sys/wait.h>
#include <unistd.h>
#include <vector>

#include "StringDictionary.h"

static uint64_t st = 88172645463325252ULL;
static inline uint64_t xs() { // xorshift64
  st ^= st << 13;
  st ^= st >> 7;
  st ^= st << 17;
  return st;
}

int main(int argc, char **argv) {
  int limit = argc > 1 ? atoi(argv[1]) : 900;
  size_t n = argc > 2 ? atoi(argv[2]) : 2200;
  size_t len = argc > 3 ? atoi(argv[3]) : 1000;
  std::vector<std::string> S(n);
  for (auto &s : S) {
    s.resize(len);
    for (auto &c : s)
      c = (char)(2 + (xs() >> 20) % 253); // 0x02..0xFE
  }
  std::sort(S.begin(), S.end()); // std::string compares as unsigned bytes
  S.erase(std::unique(S.begin(), S.end()), S.end());
  size_t total = 0;
  for (auto &s : S)
    total += s.size() + 1;
  uchar *buf = new uchar[total];
  size_t p = 0;
  for (auto &s : S) {
    memcpy(buf + p, s.c_str(), s.size() + 1);
    p += s.size() + 1;
  }
  if (argc > 4) { // dump the byte stream (for the instrumented copy)
    FILE *f = fopen(argv[4], "wb");
    fwrite(buf, 1, total, f);
    fclose(f);
  }
  printf("%zu strings of %zu bytes over 0x02..0xFE, %zu bytes in all; limit "
         "%d s\n",
         S.size(), len, total, limit);
  fflush(stdout);

  pid_t pid = fork();
  if (pid == 0) {
    auto t0 = std::chrono::steady_clock::now();
    StringDictionary *d =
        new StringDictionaryRPDAC(new IteratorDictStringPlain(buf, total));
    double secs = std::chrono::duration<double>(
                      std::chrono::steady_clock::now() - t0)
                      .count();
    printf("constructor returned after %.1f s\n", secs);
    int bad = 0;
    for (size_t i = 0; i < S.size(); i += 53) {
      uint l;
      uchar *e = d->extract(i + 1, &l);
      if (!e || S[i] != (char *)e)
        bad++;
      delete[] e;
    }
    printf("%d wrong extractions\n", bad);
    fflush(stdout);
    _exit(bad ? 1 : 0);
  }
  for (int t = 0; t < limit; t++) {
    int stt;
    if (waitpid(pid, &stt, WNOHANG) == pid) {
      if (WIFEXITED(stt) && WEXITSTATUS(stt) == 0) {
        printf("ok\n");
        return 0;
      }
      printf("VIOLATION: child failed (status %d)\n", stt);
      return 1;
    }
    sleep(1);
  }
  kill(pid, SIGKILL);
  waitpid(pid, NULL, 0);
  printf("VIOLATION (C07): StringDictionaryRPDAC(it) did not return within %d "
         "s on a valid input of %zu bytes (it never does: endless probe loop "
         "in HashRP::searchHash)\n",
         limit, total);
  return 1;
}
