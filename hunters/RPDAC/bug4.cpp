// bug4 (low severity, extreme parameter): C01/C07/C12 - HASHRPDAC computes the
// hash table size as
//     uint hash_size = (uint)(elements * (1 + overhead / 100.0));
// (StringDictionaryHASHRPDAC.cpp:68).  The product is a double that is cast
// to a 32-bit unsigned: when elements * (1 + overhead/100) >= 2^32 the cast is
// undefined behaviour and on x86-64 keeps the low 32 bits.  The table can then
// be SMALLER than the number of strings: HashDAC::insert() prints "Error Hash
// table full", returns (size_t)-1, and the constructor uses that value as a
// table index (hash->setOffset(sorting[..].hash, ..)) -> heap buffer overflow,
// and the dictionary that comes out loses strings.
// "hash overhead: any integer >= 0" is a legal parameter; the honest outcomes
// for an absurdly big one are a huge table or std::bad_alloc, not a 3-slot
// table and memory corruption.  The same wrap happens with a sane overhead
// once elements * (1 + overhead/100) passes 2^32 (e.g. 2.2e9 strings, 100 %).
//
// Input: 300 strings "s000".."s299", overhead 1431655666
//        300 * (1 + 14316556.66) = 4294967298 = 2^32 + 2  ->  hash_size 2 -> 3 slots
//
// Build (from the worktree root):
//   g++ -std=c++17 -O1 -g -fsanitize=address,undefined -I. -Ilibcds/includes \
//       FINDINGS/bug4.cpp _asan/libCSD.a _asan/libcds/libcds.a -lpthread -o /tmp/bug4
// Exit 0 = property holds; ASan abort / exit 1 = violated.
#include <cstdio>
#include <cstring>
#include <string>
#include <vector>

#include "StringDictionary.h"

int main() {
  std::vector<std::string> S;
  char b[16];
  for (int i = 0; i < 300; i++) {
    snprintf(b, sizeof b, "s%03d", i);
    S.push_back(b);
  }
  size_t len = 0;
  for (auto &s : S)
    len += s.size() + 1;
  uchar *buf = new uchar[len];
  size_t p = 0;
  for (auto &s : S) {
    memcpy(buf + p, s.c_str(), s.size() + 1);
    p += s.size() + 1;
  }
  int overhead = 1431655666;
  printf("n=300 overhead=%d -> requested slots %.0f\n", overhead,
         300 * (1 + overhead / 100.0));
  fflush(stdout);
  StringDictionary *d = new StringDictionaryHASHRPDAC(
      new IteratorDictStringPlain(buf, len), len, overhead);
  int missing = 0;
  for (auto &s : S) {
    uchar q[16];
    memset(q, 0, sizeof q);
    memcpy(q, s.c_str(), s.size());
    size_t id = d->locate(q, s.size());
    uint l = 0;
    uchar *e = id ? d->extract(id, &l) : NULL;
    if (!e || s != (char *)e)
      missing++;
    delete[] e;
  }
  delete d;
  if (missing) {
    printf("VIOLATION (C01): %d of 300 members cannot be located\n", missing);
    return 1;
  }
  printf("ok\n");
  return 0;
}
