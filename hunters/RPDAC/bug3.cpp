// bug3: C06 - the generic loader StringDictionary::load() rewinds the stream
// to ABSOLUTE offset 0 (fp.seekg(0, fp.beg)) after peeking at the type tag,
// instead of going back to where the image starts.  An image that does not
// begin at stream offset 0 (second image of a stream, image behind a header)
// therefore cannot be loaded through the generic loader: the kind's loader is
// pointed at the wrong bytes and returns NULL (or, if the stream happens to
// start with another image of the same kind, silently loads THAT image).
// The kinds' own loaders (StringDictionaryRPDAC::load ...) are fine.
//
// Build (from the worktree root):
//   g++ -std=c++17 -g -fsanitize=address,undefined -I. -Ilibcds/includes \
//       FINDINGS/bug3.cpp _asan/libCSD.a _asan/libcds/libcds.a -lpthread -o /tmp/bug3
// Exit 0 = property holds, 1 = violated.
#include <cstdio>
#include <cstring>
#include <sstream>
#include <string>
#include <vector>

#include "StringDictionary.h"

static uchar *plain(const std::vector<std::string> &S, size_t &len) {
  len = 0;
  for (auto &s : S)
    len += s.size() + 1;
  uchar *buf = new uchar[len];
  size_t p = 0;
  for (auto &s : S) {
    memcpy(buf + p, s.c_str(), s.size() + 1);
    p += s.size() + 1;
  }
  return buf;
}

int main() {
  std::vector<std::string> A = {"alpha", "beta", "gamma"};
  std::vector<std::string> B = {"one", "three", "two", "zero"};
  size_t la, lb;
  uchar *ba = plain(A, la), *bb = plain(B, lb);
  StringDictionary *da =
      new StringDictionaryRPDAC(new IteratorDictStringPlain(ba, la));
  StringDictionary *db =
      new StringDictionaryRPDAC(new IteratorDictStringPlain(bb, lb));

  // two images one after the other in a single stream
  std::stringstream ss(std::ios::in | std::ios::out | std::ios::binary);
  da->save(ss);
  size_t firstLen = ss.str().size();
  db->save(ss);
  delete da;
  delete db;

  int rc = 0;
  StringDictionary *l1 = StringDictionary::load(ss, 0);
  printf("first  generic load: %s, stream at %ld (first image is %zu bytes)\n",
         l1 ? "ok" : "NULL", (long)ss.tellg(), firstLen);
  if (!l1 || l1->numElements() != 3)
    rc = 1;
  StringDictionary *l2 = StringDictionary::load(ss, 0);
  if (!l2) {
    printf("second generic load: NULL\n");
    rc = 1;
  } else {
    uchar q[8] = "three";
    printf("second generic load: %zu elements, locate(\"three\")=%lu "
           "(expected 4 elements, id 2)\n",
           (size_t)l2->numElements(), l2->locate(q, 5));
    if (l2->numElements() != 4 || l2->locate(q, 5) != 2)
      rc = 1;
  }
  // an image behind an 8 byte header
  {
    std::stringstream s2(std::ios::in | std::ios::out | std::ios::binary);
    s2.write("HEADER!!", 8);
    l1->save(s2);
    s2.seekg(8);
    StringDictionary *l3 = StringDictionary::load(s2, 0);
    printf("image at offset 8  : %s\n", l3 ? "ok" : "NULL");
    if (!l3)
      rc = 1;
    delete l3;
    // the kind's own loader reads it from the same position
    s2.clear();
    s2.seekg(8);
    StringDictionary *l4 = StringDictionaryRPDAC::load(s2);
    printf("own loader at 8    : %s\n", l4 ? "ok" : "NULL");
    delete l4;
  }
  delete l1;
  delete l2;
  if (rc)
    printf("VIOLATION (C06): the generic loader only works for an image that "
           "starts at stream offset 0\n");
  return rc;
}
