// bug1: C06 - the generic loader StringDictionary::load() cannot reload a
// HASHRPDACBlocks image: its switch has no case for the type tag 125
// (HASHRPDACBlocks) and returns NULL, although save() writes exactly that tag
// and the kind's own loader accepts the image.
//
// Build (from the worktree root, after building _asan or _build):
//   g++ -std=c++17 -g -fsanitize=address,undefined -I. -Ilibcds/includes \
//       FINDINGS/bug1.cpp _asan/libCSD.a _asan/libcds/libcds.a -lpthread -o /tmp/bug1
//   (or without -fsanitize against _build/libCSD.a _build/libcds/libcds.a)
// Exit 0 = property holds, 1 = violated.
#include <cstdio>
#include <cstring>
#include <sstream>
#include <string>
#include <vector>

#include "StringDictionary.h"
#include "StringDictionaryHASHRPDACBlocks.h"

int main() {
  std::vector<std::string> S = {"alpha", "beta", "gamma"}; // sorted, distinct
  size_t len = 0;
  for (auto &s : S)
    len += s.size() + 1;
  uchar *buf = new uchar[len];
  size_t p = 0;
  for (auto &s : S) {
    memcpy(buf + p, s.c_str(), s.size() + 1);
    p += s.size() + 1;
  }
  // overhead 25, cut size 1<<27 (one block), one thread
  StringDictionary *d = new StringDictionaryHASHRPDACBlocks(
      new IteratorDictStringPlain(buf, len), len, 25, 1ul << 27, 1);

  std::stringstream ss(std::ios::in | std::ios::out | std::ios::binary);
  d->save(ss);
  uint32_t tag;
  std::string img = ss.str();
  memcpy(&tag, img.data(), 4);
  printf("image of %zu bytes, type tag %u (HASHRPDACBlocks = %u)\n", img.size(),
         tag, HASHRPDACBlocks);

  int rc = 0;
  // the kind's own loader accepts the image ...
  {
    std::istringstream in(img, std::ios::binary);
    StringDictionary *l = StringDictionaryHASHRPDACBlocks::load(in);
    printf("own loader     : %s\n", l ? "ok" : "NULL");
    if (!l)
      rc = 1;
    else {
      uchar q[8] = "beta";
      if (l->locate(q, 4) != d->locate(q, 4))
        rc = 1;
      delete l;
    }
  }
  // ... the generic loader, which must select the kind from the tag, does not
  {
    std::istringstream in(img, std::ios::binary);
    StringDictionary *l = StringDictionary::load(in, 0);
    printf("generic loader : %s\n", l ? "ok" : "NULL");
    if (!l) {
      printf("VIOLATION (C06): StringDictionary::load() returns NULL for a "
             "valid HASHRPDACBlocks image\n");
      rc = 1;
    } else
      delete l;
  }
  delete d;
  return rc;
}
