// bug5b: root cause of bug5 in isolation (fraction of a second).
// The Re-Pair pair table (RePair/Coder/hash.cpp) never reclaims deletion
// marks: deleteHash() writes -2 and decrements `used`, insertHash() rebuilds
// only when `used` > 0.75*size, and every insertion that lands on a virgin
// cell (-1) uses it up for good.  After enough insert/delete pairs - exactly
// what Re-Pair does with the two fresh pairs it creates and purges per
// replaced occurrence - the table holds NO -1 cell although it is (almost)
// empty, and searchHash(), which stops only at a -1 cell or at a match, loops
// for ever on any pair that is not stored.
//
// This program drives the library's own HashRP with ONE live record at a
// time: insert pair (i, i+1), delete it, repeat; it counts the virgin cells
// and finally looks up an absent pair under a 5 s alarm.
//
// Build (from the worktree root):
//   g++ -std=c++17 -O1 -g -fsanitize=address,undefined -I. -Ilibcds/includes \
//       FINDINGS/bug5b.cpp _asan/libCSD.a _asan/libcds/libcds.a -lpthread -o /tmp/bug5b
// Exit 0 = lookups of absent pairs terminate; 1 = violated.
#include <csignal>
#include <cstdio>
#include <cstdlib>
#include <unistd.h>

#include "RePair/Coder/hash.h"
#include "RePair/Coder/records.h"

static void onalarm(int) {
  const char m[] = "VIOLATION (C07/C20): HashRP::searchHash() of an absent "
                   "pair did not return within 5 s: the table has no empty "
                   "cell left although it stores 0 pairs\n";
  if (write(1, m, sizeof(m) - 1)) {
  }
  _exit(1);
}

int main() {
  Trarray Rec = Records::createRecords(factor, 256);
  Rec.records = (Trecord *)malloc(sizeof(Trecord)); // one slot is enough
  Rec.maxsize = 1;
  Rec.size = 1;
  Thash H = HashRP::createHash(256 * 256, &Rec); // as IRePair::prepare() does

  long cycles = 0;
  long empty = 0;
  for (int round = 0; round < 400; round++) {
    for (int i = 0; i < 20000; i++, cycles++) {
      Rec.records[0].pair.left = 300 + (int)cycles; // a fresh symbol, as in
      Rec.records[0].pair.right = 97 + (int)(cycles % 150); // Re-Pair
      HashRP::insertHash(&H, 0);
      HashRP::deleteHash(&H, 0);
    }
    empty = 0;
    for (int k = 0; k <= H.maxpos; k++)
      if (H.table[k] == -1)
        empty++;
    if (round % 20 == 0 || empty == 0)
      printf("after %8ld insert+delete: size %d, used %d, virgin cells %ld\n",
             cycles, H.maxpos + 1, H.used, empty);
    if (empty == 0)
      break;
  }
  if (empty != 0) {
    printf("virgin cells remain (%ld); table was rebuilt in time\n", empty);
    return 0;
  }
  printf("the table is empty (used=%d) but has no -1 cell; looking up an "
         "absent pair ...\n",
         H.used);
  fflush(stdout);
  signal(SIGALRM, onalarm);
  alarm(5);
  Tpair p = {1, 2};
  int id = HashRP::searchHash(H, p);
  alarm(0);
  printf("searchHash returned %d\n", id);
  return id == -1 ? 0 : 1;
}
