// bug1: StringDictionaryXBW::locate("") returns a valid ID (false positive, C02).
// The empty string is never a member (members are non-empty), so locate must
// give NORESULT (0).  XBW answers the ID of whatever string happens to own the
// last terminator leaf of the XBW order.
//
// compile (from FINDINGS/):
//   g++ -std=c++17 -O1 -g -fsanitize=address,undefined -fno-omit-frame-pointer -I.. -I../libcds/includes \
//       bug1.cpp ../_asan/libCSD.a ../_asan/libcds/libcds.a -lpthread -o bug1
//   (or against ../_build/libCSD.a ../_build/libcds/libcds.a without the sanitizer flags)
// run: ASAN_OPTIONS=detect_leaks=0 ./bug1      exit 0 = property holds, 1 = violated
#include "StringDictionaryXBW.h"
#include "iterators/IteratorDictStringPlain.h"
#include <cstdio>
#include <cstring>
#include <string>
#include <vector>
using namespace std;

static StringDictionary *build(const vector<string> &S) {
  size_t total = 0;
  for (auto &s : S) total += s.size() + 1;
  uchar *buf = new uchar[total];
  size_t p = 0;
  for (auto &s : S) { memcpy(buf + p, s.data(), s.size()); p += s.size(); buf[p++] = 0; }
  IteratorDictString *it = new IteratorDictStringPlain(buf, total - 1);
  StringDictionary *d = new StringDictionaryXBW(it);
  delete it; // deletes buf as well
  return d;
}

int main() {
  int bad = 0;
  vector<vector<string>> sets = {{"b"}, {"a", "ab"}, {"abc", "abd", "zz"}};
  for (auto &S : sets) {
    StringDictionary *d = build(S);
    uchar q[4] = {0, 0xAA, 0xBB, 0}; // "" in a writable buffer with spare bytes
    size_t id = d->locate(q, 0);
    if (id != 0) {
      uint l;
      uchar *e = d->extract(id, &l);
      printf("VIOLATION: set of %zu strings (first \"%s\"): locate(\"\") = %zu "
             "(extract(%zu) = \"%s\"), expected NORESULT\n",
             S.size(), S[0].c_str(), id, id, e ? (char *)e : "(null)");
      delete[] e;
      bad = 1;
    }
    delete d;
  }
  if (!bad) printf("ok\n");
  return bad;
}
