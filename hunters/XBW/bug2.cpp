// bug2: prefix / substring search with the EMPTY pattern never terminates or
// crashes (C07 "never crashes ... and terminates", C13 "each ID at most once,
// hasNext becomes false after the last element").
//   locatePrefix("")  : hasNext() never becomes false, the same IDs are produced
//                       over and over while the iterator's queue grows forever;
//   extractPrefix("") : first next() recurses without end in
//                       IteratorDictStringXBW::idToStr -> stack overflow (SIGSEGV);
//   locateSubstr("") / extractSubstr("") : the call itself never returns (the
//                       iterator constructor drains the endless stream into a
//                       vector until memory is exhausted).
// Every string starts with / contains "", so the correct answer would be "all n
// IDs / strings, each once" (an empty answer or a NULL iterator would at least
// be safe).
//
// compile (from FINDINGS/):
//   g++ -std=c++17 -O1 -g -fsanitize=address,undefined -fno-omit-frame-pointer -I.. -I../libcds/includes \
//       bug2.cpp ../_asan/libCSD.a ../_asan/libcds/libcds.a -lpthread -o bug2
//   (also reproduces with the Release libraries ../_build/libCSD.a ../_build/libcds/libcds.a)
// run: ASAN_OPTIONS=detect_leaks=0 ./bug2 2>/dev/null    exit 0 = holds, 1 = violated
#include "StringDictionaryXBW.h"
#include "iterators/IteratorDictStringPlain.h"
#include <csignal>
#include <cstdio>
#include <cstring>
#include <string>
#include <sys/resource.h>
#include <sys/wait.h>
#include <unistd.h>
#include <vector>
using namespace std;

static const vector<string> S = {"abc", "abd", "zz"};

static StringDictionary *build() {
  size_t total = 0;
  for (auto &s : S) total += s.size() + 1;
  uchar *buf = new uchar[total];
  size_t p = 0;
  for (auto &s : S) { memcpy(buf + p, s.data(), s.size()); p += s.size(); buf[p++] = 0; }
  IteratorDictString *it = new IteratorDictStringPlain(buf, total - 1);
  StringDictionary *d = new StringDictionaryXBW(it);
  delete it;
  return d;
}

// each scenario returns the number of results (capped at 20)
static int scenario(int k) {
  StringDictionary *d = build();
  uchar q[4] = {0, 0xAA, 0xBB, 0}; // "" in a writable buffer with spare bytes
  size_t cnt = 0;
  if (k == 0) {
    IteratorDictID *it = d->locatePrefix(q, 0);
    while (it && it->hasNext() && cnt < 20) { it->next(); cnt++; }
    delete it;
  } else if (k == 1) {
    IteratorDictString *is = d->extractPrefix(q, 0);
    while (is && is->hasNext() && cnt < 20) { uint l; delete[] is->next(&l); cnt++; }
    delete is;
  } else if (k == 2) {
    IteratorDictID *it = d->locateSubstr(q, 0);
    while (it && it->hasNext() && cnt < 20) { it->next(); cnt++; }
    delete it;
  } else {
    IteratorDictString *is = d->extractSubstr(q, 0);
    while (is && is->hasNext() && cnt < 20) { uint l; delete[] is->next(&l); cnt++; }
    delete is;
  }
  delete d;
  return (int)cnt;
}

int main() {
  const char *names[] = {"locatePrefix(\"\")", "extractPrefix(\"\")",
                         "locateSubstr(\"\")", "extractSubstr(\"\")"};
  int bad = 0;
  for (int k = 0; k < 4; k++) {
    fflush(stdout);
    pid_t pid = fork();
    if (pid == 0) {
      struct rlimit rl = {5, 5}; // 5 s of CPU
      setrlimit(RLIMIT_CPU, &rl);
      alarm(20);
      _exit(scenario(k));
    }
    int st = 0;
    waitpid(pid, &st, 0);
    if (WIFSIGNALED(st)) {
      int sg = WTERMSIG(st);
      printf("VIOLATION: %s killed by signal %d (%s)\n", names[k], sg,
             (sg == SIGXCPU || sg == SIGALRM || sg == SIGKILL)
                 ? "did not terminate within the time limit"
                 : "crash");
      bad = 1;
    } else if (WEXITSTATUS(st) != (int)S.size()) {
      // ASan reports a stack overflow / OOM by exiting with its own code
      printf("VIOLATION: %s produced %d%s results (or aborted) for a dictionary "
             "of %zu strings\n", names[k], WEXITSTATUS(st),
             WEXITSTATUS(st) >= 20 ? "+ (endless)" : "", S.size());
      bad = 1;
    } else
      printf("ok: %s\n", names[k]);
  }
  return bad;
}
