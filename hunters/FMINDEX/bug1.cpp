// bug1.cpp -- FMINDEX: a BWT sampling step that is a multiple of 2^32 silently
// disables substring search (size_t -> uint truncation of the step).
//
// Compile (from /tmp/wt_H_FMINDEX/FINDINGS, library built in ../_build):
//   g++ -std=c++17 -O1 -g -I.. -I../libcds/includes bug1.cpp \
//       ../_build/libCSD.a ../_build/libcds/libcds.a -o bug1 -lpthread
// (or link ../_asan/libCSD.a ../_asan/libcds/libcds.a with -fsanitize=address,undefined)
//
// Property C05 / C12: an FM-index built with BWT sampling > 0 offers substring
// search, and the sampling step changes space/time only, never answers.
// Exit 0 = property holds, 1 = violated.
#include "StringDictionary.h"
#include <cstdio>
#include <cstring>
#include <vector>

static StringDictionaryFMINDEX *build(size_t step) {
  static const char raw[] = "abc\0abd\0b\0xyz"; // 4 sorted strings, NUL separated
  size_t len = sizeof(raw);                     // includes the final NUL
  uchar *buf = new uchar[len];
  memcpy(buf, raw, len);
  IteratorDictStringPlain *it = new IteratorDictStringPlain(buf, len);
  StringDictionaryFMINDEX *d = new StringDictionaryFMINDEX(it, false, 20, step);
  delete it;
  return d;
}

static bool substrIds(StringDictionary *d, const char *p, std::vector<size_t> &out) {
  uchar pat[16];
  memset(pat, 0, sizeof(pat));
  strcpy((char *)pat, p);
  IteratorDictID *ids = d->locateSubstr(pat, strlen(p));
  if (!ids)
    return false;
  while (ids->hasNext())
    out.push_back(ids->next());
  delete ids;
  return true;
}

int main() {
  int rc = 0;
  // reference: step 1 (and any "too large" step such as 2^32-1 or 2^32+1 works too)
  size_t steps[] = {1, 4294967295UL, 4294967296UL, 4294967297UL, 8589934592UL};
  for (size_t step : steps) {
    StringDictionaryFMINDEX *d = build(step);
    std::vector<size_t> ids;
    bool ok = substrIds(d, "b", ids);
    // members containing "b": abc(1) abd(2) b(3)
    bool good = ok && ids.size() == 3 && ids[0] == 1 && ids[1] == 2 && ids[2] == 3;
    printf("sampling step %zu: locateSubstr(\"b\") %s (%zu ids)%s\n", step,
           ok ? "returned an iterator" : "returned NULL", ids.size(),
           good ? "" : "   <-- WRONG: step > 0 must provide substring search");
    if (!good)
      rc = 1;
    uchar pat[8] = "b";
    IteratorDictString *es = d->extractSubstr(pat, 1);
    if (!es) {
      printf("sampling step %zu: extractSubstr(\"b\") returned NULL\n", step);
      rc = 1;
    } else {
      while (es->hasNext()) { uint l; delete[] es->next(&l); }
      delete es;
    }
    delete d;
  }
  return rc;
}
