// bug2.cpp -- generic loader StringDictionary::load() rewinds the stream to
// absolute offset 0 (StringDictionary.cpp:32) instead of to the start of the
// image it was asked to read.  Shown here with two FMINDEX images stored one
// after the other (NOTE: the defect is in StringDictionary.cpp, i.e. outside the
// FMINDEX sources proper; FMINDEX's own loader handles the same stream fine).
//
// Compile (from /tmp/wt_H_FMINDEX/FINDINGS):
//   g++ -std=c++17 -O1 -g -I.. -I../libcds/includes bug2.cpp \
//       ../_build/libCSD.a ../_build/libcds/libcds.a -o bug2 -lpthread
//
// Property C06: reading a saved image back through the generic loader yields a
// dictionary equivalent to the one saved; images are self-delimiting so several
// can follow one another in one stream.  Exit 0 = holds, 1 = violated.
#include "StringDictionary.h"
#include <cstdio>
#include <cstring>
#include <sstream>

static StringDictionaryFMINDEX *build(const char *raw, size_t len) {
  uchar *buf = new uchar[len];
  memcpy(buf, raw, len);
  IteratorDictStringPlain *it = new IteratorDictStringPlain(buf, len);
  StringDictionaryFMINDEX *d = new StringDictionaryFMINDEX(it, false, 20, 4);
  delete it;
  return d;
}

int main() {
  static const char rawA[] = "alpha\0beta";      // dictionary A: 2 strings
  static const char rawB[] = "one\0three\0two";  // dictionary B: 3 strings
  StringDictionaryFMINDEX *A = build(rawA, sizeof(rawA));
  StringDictionaryFMINDEX *B = build(rawB, sizeof(rawB));
  std::stringstream ss;
  A->save(ss);
  size_t endA = ss.tellp();
  B->save(ss);
  delete A;
  delete B;

  int rc = 0;
  // 1) own loader: consumes exactly image A, then image B  (works)
  {
    std::istringstream in(ss.str());
    StringDictionary *a = StringDictionaryFMINDEX::load(in);
    size_t pos = in.tellg();
    StringDictionary *b = StringDictionaryFMINDEX::load(in);
    printf("own loader    : first has %zu elements (expect 2), stream at %zu (expect %zu), second has %zu (expect 3)\n",
           a->numElements(), pos, endA, b->numElements());
    if (a->numElements() != 2 || pos != endA || b->numElements() != 3)
      rc = 1;
    delete a;
    delete b;
  }
  // 2) generic loader on the same stream positioned at image B
  {
    std::istringstream in(ss.str());
    in.seekg(endA);
    StringDictionary *b = StringDictionary::load(in, 0);
    if (!b) {
      printf("generic loader: NULL for the image at offset %zu\n", endA);
      rc = 1;
    } else {
      uint l;
      uchar *s = b->extract(1, &l);
      printf("generic loader: asked for the image at offset %zu (3 strings, first \"one\"), got %zu strings, first \"%s\"%s\n",
             endA, b->numElements(), s ? (char *)s : "(null)",
             b->numElements() == 3 ? "" : "   <-- WRONG image (rewound to offset 0)");
      if (b->numElements() != 3 || !s || strcmp((char *)s, "one"))
        rc = 1;
      delete[] s;
      delete b;
    }
  }
  return rc;
}
