// Generators for dictionary cases: kinds, legal parameters, valid string sets.
// Pure functions of the case bytes (no rand(), no clock).
#pragma once
#include <algorithm>
#include <cstdlib>
#include <string>
#include <vector>

#include "common.h"

namespace vh {

enum Kind { K_PFC, K_RPFC, K_HTFC, K_HHTFC, K_RPHTFC, K_RPDAC, K_FMINDEX, K_XBW, K_HASHHF, K_HASHRPF, K_HASHUFFDAC, K_HASHRPDAC, K_BLOCKS, K_COUNT };
static const char *kind_names[K_COUNT] = {"PFC", "RPFC", "HTFC", "HHTFC", "RPHTFC", "RPDAC", "FMINDEX", "XBW", "HASHHF", "HASHRPF", "HASHUFFDAC", "HASHRPDAC", "BLOCKS"};
inline bool is_fc(int k) { return k <= K_RPHTFC; }
inline bool is_ordered(int k) { return k <= K_FMINDEX; }          // C03's list
inline bool is_hash(int k) { return k >= K_HASHHF; }
inline bool has_prefix(int k) { return k <= K_XBW; }
inline bool has_bucket(int k) { return k <= K_RPHTFC; }
inline bool has_overhead(int k) { return k >= K_HASHHF; }

static const int N_CLASSES = 6;  // quick; class 6 exists in thorough
// class 7 ("scale" stages): more than 2^17 strings, mostly more than 2^16 buckets and a text of 1-4 MB, so that 16-bit
// quantities overflow and every buffer is reallocated with the default MEMALLOC
// class 8 ("hugelcp" stages): 2-6 strings of 16-70 KB sharing a prefix whose length sits around the 2^14 / 2^15 /
// 2^16 boundaries (variable-byte code, 16-bit lengths), plus a few short strings
static const int n_lo[9] = {1, 2, 3, 9, 65, 601, 3001, 140000, 2};
static const int n_hi[9] = {1, 2, 8, 64, 600, 3000, 12000, 280000, 6};

struct Params {
  int kind = 0;
  uint32_t bucket = 2;      // front coding
  int overhead = 0;         // hash kinds
  bool fm_sparse = false;   // FMINDEX: RRR (true) / RG (false)
  int fm_bparam = 4;        // bitmap sampling
  size_t fm_bwt = 0;        // BWT sampling
  unsigned long cut = 1 << 27;
  int threads = 1;
  uint32_t loadopt = 1;
  size_t memalloc = 32768;
  std::string str() const {
    char b[256];
    snprintf(b, sizeof b, "{\"bucket\":%u,\"overhead\":%d,\"fm_sparse\":%d,\"fm_bparam\":%d,\"fm_bwt\":%zu,\"cut\":%lu,\"threads\":%d,\"loadopt\":%u,\"memalloc\":%zu}",
             bucket, overhead, (int)fm_sparse, fm_bparam, fm_bwt, cut, threads, loadopt, memalloc);
    return b;
  }
};

// legal parameter vector for a kind; n = |S|, total = text bytes
inline void gen_params(Src &s, Params &p, size_t n, size_t total, bool allow_clamp, bool allow_memalloc) {
  static const uint32_t buckets[] = {2, 3, 4, 5, 8, 16, 7, 32, 4096};
  uint32_t b = s.pick({40, 25, 25, 25, 25, 25, 15, 10, 6, 20, 20, 20, 40});
  if (b < 9) p.bucket = buckets[b];
  else if (b == 9) p.bucket = n > 2 ? (uint32_t)n - 1 : 2;
  else if (b == 10) p.bucket = n >= 2 ? (uint32_t)n : 2;
  else if (b == 11) p.bucket = (uint32_t)n + 1;
  else {
    // a divisor of n: the last bucket is exactly full
    p.bucket = n >= 2 ? (uint32_t)n : 2;
    for (uint32_t d = 2 + s.byte() % 7, k = 0; k < 16; k++, d++) if (d >= 2 && n % d == 0) { p.bucket = d; break; }
  }
  // the bucket size at which MEMALLOC * bucketsize leaves 32 bits (2^17 with the default 32768; 2^18 would
  // reserve 8 GB, which the sanitizer's allocator refuses on a loaded machine)
  if ((b == 7 || b == 8) && n % 4 == 3) p.bucket = 131072u;   // reserves exactly 4 GB (untouched) once the product is right
  if (p.bucket < 2) p.bucket = 2;
  if (allow_clamp) {
    uint32_t c = s.pick({200, 28, 28});
    if (c == 1) p.bucket = 0;
    if (c == 2) p.bucket = 1;
  } else s.byte();
  static const int ovh[] = {25, 0, 1, 5, 10, 50, 100, 300};
  p.overhead = ovh[s.pick({60, 40, 20, 20, 20, 30, 30, 20})];
  uint32_t f = s.byte();
  p.fm_sparse = f & 1;
  static const int bp[] = {4, 1, 2, 3, 8, 20, 32, 64, 128};
  p.fm_bparam = bp[(f >> 1) % 9];
  static const size_t bw[] = {4, 0, 1, 2, 3, 8, 16, 64, 0xFFFF};
  size_t w = bw[s.pick({50, 30, 30, 30, 30, 25, 25, 20, 16})];
  p.fm_bwt = w == 0xFFFF ? total + 1 + s.below(5) : w;
  uint32_t c = s.pick({40, 30, 40, 40, 40, 30, 20, 16});
  switch (c) {
    case 0: p.cut = 1UL << 27; break;
    case 1: p.cut = 0; break;                       // one string per block
    case 2: p.cut = 1 + s.below(16); break;
    case 3: p.cut = total / (2 + s.below(6)); break;  // several blocks
    case 4: p.cut = total / 2 + s.below(4); break;
    case 5: p.cut = total; break;
    case 6: p.cut = total + 1 + s.below(3); break;
    default: p.cut = total > 1 ? total - 1 : 0; break;
  }
  static const int th[] = {1, 2, 3, 4, 8, 16};
  p.threads = th[s.pick({100, 50, 40, 30, 20, 16})];
  p.loadopt = 1 + s.pick({120, 68, 68});
  if (allow_memalloc) {
    static const size_t ma[] = {32768, 1024, 64, 8, 1};
    p.memalloc = ma[s.pick({136, 30, 30, 30, 30})];
  } else s.byte();
}

// ------------------------------------------------------------------ string sets
struct GenInfo {
  int family = 0, asize = 0, nclass = 0;
  size_t total = 0, maxlen = 0, maxlcp = 0;
};

inline std::vector<uint8_t> gen_alphabet(Src &s, int &asize_out) {
  static const int sizes[] = {3, 1, 2, 4, 8, 26, 64, 253};
  int asize = sizes[s.pick({50, 12, 30, 40, 40, 40, 24, 20})];
  int mode = s.pick({120, 70, 66});
  std::vector<uint8_t> a;
  if (asize == 253) {
    for (int c = 2; c <= 254; c++) a.push_back((uint8_t)c);
  } else if (mode == 0) {
    // contiguous letters
    int base = asize <= 26 ? 'a' : 0x30;
    for (int i = 0; i < asize; i++) a.push_back((uint8_t)(base + i));
  } else if (mode == 1) {
    // the extremes first: 0x02 0xFE 0x7F 0x80 then letters
    static const uint8_t ext[] = {0x02, 0xFE, 0x7F, 0x80, 0x03, 0xFD, 'a', 0xC3};
    for (int i = 0; i < asize && i < 8; i++) a.push_back(ext[i]);
    for (int i = 8; i < asize; i++) a.push_back((uint8_t)(0x41 + i));
  } else {
    // spread over the whole legal range
    for (int i = 0; i < asize; i++) a.push_back((uint8_t)(2 + (uint32_t)i * 252 / (asize > 1 ? asize - 1 : 1)));
  }
  std::sort(a.begin(), a.end());
  a.erase(std::unique(a.begin(), a.end()), a.end());
  asize_out = (int)a.size();
  return a;
}

// byte stream for string programs: raw case bytes first, then (large classes only) a
// xorshift stream seeded by the whole input, so big sets do not need big inputs
struct ProgSrc {
  Src &s;
  XorShift x;
  bool prng_ok;
  ProgSrc(Src &s_, uint64_t seed, bool ok) : s(s_), x(seed), prng_ok(ok) {}
  uint8_t byte() {
    if (!s.exhausted() || !prng_ok) return s.byte();
    return (uint8_t)(x.next() >> 24);
  }
  uint32_t below(uint32_t m) {
    if (m <= 1) return 0;
    if (m <= 256) return byte() % m;
    uint32_t v = byte();
    v |= (uint32_t)byte() << 8;
    if (m > 65536) { v |= (uint32_t)byte() << 16; v |= (uint32_t)byte() << 24; }
    return v % m;
  }
  uint32_t pick(std::initializer_list<int> w) {
    int tot = 0;
    for (int v : w) tot += v;
    int r = byte() % tot, k = 0;
    for (int v : w) { if (r < v) return k; r -= v; k++; }
    return 0;
  }
};

inline std::vector<std::string> gen_strings(Src &s, int nclass, bool thorough, GenInfo &gi, bool prefer_textlike = false) {
  std::vector<std::string> S;
  int asize = 0;
  std::vector<uint8_t> A = gen_alphabet(s, asize);
  // families; index 0 (simplest) = incremental program
  int family = s.pick({120, 14, 8, 14, 14, 14, 20, 10, 10, 32});
  // kinds whose table-driven decoder only works on text-like input (KNOWN_FINDINGS F01-F03) are
  // mostly fed that family, so that they are still explored where they work
  if (prefer_textlike && s.byte() % 4 != 3) family = 9;
  if (family == 7 && nclass < 5) family = 0;   // the big skewed text is a large-class shape
  if (nclass == 7) { static const int big[] = {9, 1, 0, 9}; family = big[s.byte() % 4]; }   // text-like, numerals, incremental
  if (nclass == 8) family = fnv(s.p, s.n) % 4 == 0 ? 11 : 10;   // chosen without consuming input
  if (const char *ff = getenv("VERIF_FAMILY")) family = atoi(ff);  // development aid
  int lo = n_lo[nclass], hi = n_hi[nclass];
  size_t n = lo + s.below(hi - lo + 1);
  uint64_t seed = fnv(s.p, s.n);
  ProgSrc ps(s, seed, nclass >= 3);
  size_t budget = nclass == 7 ? 4000000 : thorough ? 600000 : 250000;  // text bytes
  gi.family = family; gi.asize = asize; gi.nclass = nclass;
  auto sym = [&]() -> char { return (char)A[ps.below(asize)]; };

  switch (family) {
    default:
    case 0: {  // incremental program: prefixes of earlier strings + suffix
      size_t total = 0;
      for (size_t k = 0; k < n && total < budget; k++) {
        std::string str;
        if (k > 0) {
          const std::string &base = S[ps.below((uint32_t)(k < 64 ? k : 64)) + (k < 64 ? 0 : k - 64)];
          size_t keep = 0;
          switch (ps.pick({60, 50, 40, 60, 46})) {
            case 0: keep = 0; break;
            case 1: keep = std::min<size_t>(base.size(), 1 + ps.below(3)); break;
            case 2: keep = base.size() / 2; break;
            case 3: keep = base.size(); break;
            case 4: keep = base.size() >= 128 ? 128 + ps.below((uint32_t)(base.size() - 127)) : base.size(); break;
          }
          str = base.substr(0, keep);
        }
        size_t sl = 0;
        bool prng_suffix = false;
        switch (ps.pick({130, 60, 24, 16 + (nclass <= 3 ? 14 : 0), nclass <= 3 ? 6 : 2})) {
          case 0: sl = ps.below(4); break;
          case 1: sl = 4 + ps.below(17); break;
          case 2: sl = 21 + ps.below(107); prng_suffix = true; break;
          case 3: sl = 128 + ps.below(273); prng_suffix = true; break;
          case 4: sl = 1000 + ps.below(600); prng_suffix = true; break;
        }
        if (prng_suffix) {
          // long suffixes: expanded from two bytes (random symbols or a repeated short unit)
          uint32_t sd = ps.byte() | (ps.byte() << 8);
          XorShift x(sd + 77);
          int unit = (sd & 3) == 0 ? 1 + (sd >> 2) % 5 : 0;
          std::string u;
          for (int q = 0; q < unit; q++) u += (char)A[x.below(asize)];
          for (size_t q = 0; q < sl; q++) str += unit ? u[q % unit] : (char)A[x.below(asize)];
        } else {
          for (size_t q = 0; q < sl; q++) str += sym();
        }
        if (str.empty()) str += (char)A[0];
        total += str.size() + 1;
        S.push_back(str);
      }
      break;
    }
    case 1: {  // decimal numerals 0..n-1 (the shape the pinned suite uses)
      for (size_t k = 0; k < n; k++) S.push_back(std::to_string(k));
      break;
    }
    case 2: {  // all single-symbol strings (+ some pairs)
      for (int i = 0; i < asize; i++) S.push_back(std::string(1, (char)A[i]));
      for (size_t k = asize; k < n; k++) { std::string t; t += sym(); t += sym(); S.push_back(t); }
      break;
    }
    case 3: {  // all strings of one length
      size_t L = 1 + ps.below(12);
      if (ps.below(8) == 0) L = 128 + ps.below(8);
      for (size_t k = 0; k < n; k++) { std::string t; for (size_t q = 0; q < L; q++) t += sym(); S.push_back(t); }
      break;
    }
    case 4: {  // Re-Pair-able repetitions (abab...)
      for (size_t k = 0; k < n; k++) {
        std::string u;
        int ul = 1 + ps.below(3);
        for (int q = 0; q < ul; q++) u += sym();
        size_t rep = 1 + ps.below(40);
        std::string t;
        for (size_t q = 0; q < rep; q++) t += u;
        S.push_back(t);
      }
      break;
    }
    case 5: {  // runs of one symbol: a, aa, aaa ... (nested prefixes)
      size_t per = std::max<size_t>(1, n / std::max(1, std::min(asize, 3)));
      for (int a = 0; a < asize && S.size() < n; a++)
        for (size_t k = 1; k <= per && S.size() < n; k++) S.push_back(std::string(k, (char)A[a]));
      break;
    }
    case 6: {  // near-identical long strings: shared prefix >=128
      size_t pl = 128 + ps.below(200);
      std::string pre;
      for (size_t q = 0; q < pl; q++) pre += sym();
      for (size_t k = 0; k < n; k++) {
        std::string t = pre;
        size_t sl = 1 + ps.below(6);
        for (size_t q = 0; q < sl; q++) t += sym();
        S.push_back(t);
      }
      break;
    }
    case 7: {  // skewed symbol statistics, big text: forces long codewords
      // geometric symbol profile over the alphabet, total 60-250 KB
      size_t target = 60000 + ps.below(thorough ? 240000 : 120000);
      XorShift x(seed ^ 0xABCDEF);
      size_t total = 0;
      int as = std::max(asize, 8);
      std::vector<uint8_t> B = A;
      for (int c = 0x30; (int)B.size() < as; c++) if (std::find(B.begin(), B.end(), (uint8_t)c) == B.end()) B.push_back((uint8_t)c);
      while (total < target) {
        size_t L = 3 + x.below(40);
        std::string t;
        for (size_t q = 0; q < L; q++) {
          int k = 0;
          while (k + 1 < (int)B.size() && (x.next() & 3) == 0) k++;   // P(k) ~ (1/4)^k
          t += (char)B[k];
        }
        total += L + 1;
        S.push_back(t);
      }
      break;
    }
    case 9: {  // text-like: lengths 3-27 over a 42-letter alphabet with skewed (geometric-ish) statistics
      XorShift x(seed ^ 0x7e57);
      static const char *letters = "etaoinshrdlcumwfgypbvkjxqzETAOINSHRDLC0123_-";
      for (size_t k = 0; k < n; k++) {
        size_t L = 3 + x.below(25);
        std::string t;
        for (size_t q = 0; q < L; q++) {
          uint32_t r2 = x.below(1000), idx = 0, acc = 0;
          // P(idx) ~ 0.88^idx
          static uint32_t cum[44];
          static bool init = false;
          if (!init) { double w = 1, tot = 0; double ws[44]; for (int i = 0; i < 44; i++) { ws[i] = w; tot += w; w *= 0.88; } double a = 0; for (int i = 0; i < 44; i++) { a += ws[i]; cum[i] = (uint32_t)(a / tot * 1000); } init = true; }
          (void)acc;
          while (idx < 43 && r2 >= cum[idx]) idx++;
          t += letters[idx];
        }
        S.push_back(t);
      }
      break;
    }
    case 10: {  // shared prefixes around 2^14 and 2^15 bytes
      static const size_t base[] = {16384, 16383, 16385, 16500, 16511, 16512, 32768, 32767, 32800, 20000, 49152, 16384 + 127, 65535, 65536, 65600, 70000};
      size_t pl = base[ps.below(16)];
      if (ps.below(4) == 0) pl += ps.below(300);
      if (pl > 60000 && n > 3) n = 3;
      XorShift x(seed ^ 0x1c9);
      std::string pre;
      for (size_t q = 0; q < pl; q++) pre += (char)A[x.below(asize)];
      for (size_t k = 0; k < n; k++) {
        std::string t = pre;
        size_t sl = 1 + ps.below(6);
        for (size_t q = 0; q < sl; q++) t += sym();
        S.push_back(t);
      }
      size_t shorts = ps.below(8);
      for (size_t k = 0; k < shorts; k++) { std::string t; size_t L = 1 + ps.below(9); for (size_t q = 0; q < L; q++) t += sym(); S.push_back(t); }
      break;
    }
    case 11: {  // a member r and the member 0x80 + r (the front-coded form of r: VByte 0 + r) as neighbours in one bucket
      XorShift x(seed ^ 0xa11a5);
      std::string r;
      size_t L = 5 + x.below(56);
      for (size_t q = 0; q < L; q++) r += (char)A[x.below(asize)];
      if ((unsigned char)r[0] >= 0x80 || (unsigned char)r[0] < 3) r[0] = 'b';
      S.push_back(std::string(1, (char)((unsigned char)r[0] - 1)));
      S.push_back(r);
      S.push_back(std::string(1, (char)0x80) + r);
      size_t extra = x.below(3);
      for (size_t k = 0; k < extra; k++) { std::string t(1, (char)0x81); size_t l2 = 1 + x.below(8); for (size_t q = 0; q < l2; q++) t += (char)A[x.below(asize)]; S.push_back(t); }
      break;
    }
    case 8: {  // one long string among short ones
      for (size_t k = 0; k < n; k++) { std::string t; size_t L = 1 + ps.below(5); for (size_t q = 0; q < L; q++) t += sym(); S.push_back(t); }
      std::string t;
      size_t L = 1000 + ps.below(3000);
      XorShift x(seed + 5);
      for (size_t q = 0; q < L; q++) t += (char)A[x.below(asize)];
      S.push_back(t);
      break;
    }
  }
  // strings that begin like a front-coded entry of another member: byte 0x80 (the VByte of "nothing shared")
  // or 0x81 followed by a whole member - decoders that expand a Re-Pair rule while still reading the VByte meet
  // their longest case here.  No input byte is consumed: one member in 23 gets such a companion.
  if (std::find(A.begin(), A.end(), (uint8_t)0x80) != A.end() && nclass <= 5) {
    size_t n0 = S.size();
    for (size_t i = 0; i < n0; i++)
      if (fnv(S[i].data(), S[i].size()) % 23 == 0) S.push_back(std::string(1, (char)(0x80 + (i & 1))) + S[i]);
  }
  if (S.empty()) S.push_back(std::string(1, (char)A[0]));
  std::sort(S.begin(), S.end(), [](const std::string &a, const std::string &b) {
    int c = memcmp(a.data(), b.data(), std::min(a.size(), b.size()));
    return c ? c < 0 : a.size() < b.size();
  });
  S.erase(std::unique(S.begin(), S.end()), S.end());
  gi.total = 0; gi.maxlen = 0; gi.maxlcp = 0;
  for (size_t i = 0; i < S.size(); i++) {
    gi.total += S[i].size() + 1;
    gi.maxlen = std::max(gi.maxlen, S[i].size());
    if (i) {
      size_t l = 0;
      while (l < S[i].size() && l < S[i - 1].size() && S[i][l] == S[i - 1][l]) l++;
      gi.maxlcp = std::max(gi.maxlcp, l);
    }
  }
  return S;
}

inline bool ult(const std::string &a, const std::string &b) {
  int c = memcmp(a.data(), b.data(), std::min(a.size(), b.size()));
  return c ? c < 0 : a.size() < b.size();
}

}  // namespace vh
