// Schedule family: C10 (worker pool) and C09 (parallel block build) under the deterministic scheduler.
// Every case runs in a forked child (a deadlocked process cannot be recovered); the parent - the
// rapidcheck process - reads the verdict from a pipe, so failures shrink like any other case.
#include <sys/wait.h>
#include <unistd.h>

#include <algorithm>
#include <cstring>
#include <functional>
#include <sstream>
#include <vector>

#include "common.h"
#include "dict_gen.h"
#include "dict_obj.h"
#include "parallel/Worker.hpp"
#include "vsched.h"

#ifdef VERIF_NATIVE
// native stage: the same scenarios with real threads under the OS scheduler (ASan build, no interposition)
extern "C" void vsched_begin(const unsigned char *, size_t) {}
extern "C" vsched_stats vsched_end(void) { vsched_stats s; memset(&s, 0, sizeof s); return s; }
void (*vsched_on_deadlock)(const vsched_stats *) = nullptr;
#endif

extern "C" int libcsd_verif_memalloc = 32768;

namespace vh {

const char *family_name() { return "sched"; }

struct Verdict {
  int code;            // 0 ok, 1 property event, 86 deadlock
  char clause[48];
  char msg[400];
  long points, preemptions, cond_waits, timed_waits, notify_lost;
  int threads;
  int nontrivial;
  int blocks;
  long schedules;      // enumeration stage: schedules executed for this configuration
  int complete;        // ... and whether the bounded space was exhausted
};

static int out_fd = -1;
static Verdict V;
static void send_verdict() { if (out_fd >= 0) (void)!write(out_fd, &V, sizeof V); }
static void on_deadlock(const vsched_stats *s) {
  V.code = 86;
  snprintf(V.clause, sizeof V.clause, "deadlock");
  snprintf(V.msg, sizeof V.msg, "%s", s->detail);
  V.points = s->points; V.preemptions = s->preemptions; V.cond_waits = s->cond_waits; V.threads = s->threads;
  send_verdict();
}
static void fill(const vsched_stats &s) {
  V.points = s.points; V.preemptions = s.preemptions; V.cond_waits = s.cond_waits; V.timed_waits = s.timed_waits;
  V.notify_lost = s.notify_without_waiter; V.threads = s.threads;
}
static void fail(const char *clause, const std::string &msg) {
  if (V.code) return;
  V.code = 1;
  snprintf(V.clause, sizeof V.clause, "%s", clause);
  snprintf(V.msg, sizeof V.msg, "%s", msg.c_str());
}

// ------------------------------------------------------------------ C10: the pool
// protocol 0: producer adds all tasks then stops at once and waits
//          1: tasks signal completion through the producer's own condition variable; the producer stops
//             after the last completion (the HASHRPDACBlocks pattern)
//          2: the last task itself calls stop_all_workers (the parallel_test pattern)
static void pool_run(int w, int t, int protocol, const std::function<void()> &begin);
static void scenario_pool(Src &s, const std::vector<uint8_t> &schedule) {
  int w = 1 + s.below(4);
  int t = s.below(13);
  int protocol = s.below(3);
  if (protocol == 2 && t == 0) protocol = 0;
  pool_run(w, t, protocol, [&] { vsched_begin(schedule.data(), schedule.size()); });
}
static void pool_run(int w, int t, int protocol, const std::function<void()> &begin) {
  std::vector<int> count(t, 0), inflight(t, 0);
  int overlap = 0;
  vsched_on_deadlock = on_deadlock;
  begin();
  {
    WorkerPool pool(w);
    std::mutex m;
    std::condition_variable cv;
    int done = 0;
    for (int i = 0; i < t; i++) {
      pool.add_task([&, i]() {
        if (inflight[i]) overlap++;
        inflight[i] = 1;
        count[i]++;
        inflight[i] = 0;
        if (protocol == 1) {
          { std::lock_guard<std::mutex> lg(m); done++; }
          cv.notify_all();
        } else if (protocol == 2) {
          std::lock_guard<std::mutex> lg(m);
          done++;
          if (done == t) pool.stop_all_workers();
        }
      });
    }
    if (protocol == 1) {
      std::unique_lock<std::mutex> ul(m);
      cv.wait(ul, [&] { return done == t; });
    }
    if (protocol != 2) pool.stop_all_workers();
    pool.wait_workers();
  }
  vsched_stats st = vsched_end();
  fill(st);
  for (int i = 0; i < t; i++)
    if (count[i] != 1) { fail("not-exactly-once", "task " + std::to_string(i) + " of " + std::to_string(t) + " ran " + std::to_string(count[i]) + " times (workers " + std::to_string(w) + ", protocol " + std::to_string(protocol) + ")"); break; }
  if (overlap) fail("self-overlap", "a task was entered while it was already running");
  if (st.timed_waits) fail("harness-timed-wait", "the code under test uses timed waits, which the scheduler models as plain waits");
  V.nontrivial = st.preemptions >= 1 && t >= 1;
  snprintf(V.msg + strlen(V.msg), sizeof V.msg - strlen(V.msg), " [w=%d t=%d protocol=%d]", w, t, protocol);
}

#ifndef VERIF_NATIVE
// ------------------------------------------------------------------ C10, enumeration stage
// One case = one configuration (workers, tasks, protocol) taken from the stratum; ALL schedules with at
// most `bound` pre-emptions of a runnable thread are executed (stateless depth-first search over the
// recorded choice points: the same oracle after every schedule).  Runs in-process inside the forked child;
// a deadlock ends the child with the verdict and the choice list that led to it.
static std::string enum_list() {
  unsigned char c[512], k[512];
  size_t n = vsched_enum_trace(c, k, 512);
  std::string o;
  for (size_t i = 0; i < n && i < 512; i++) o += std::to_string((int)c[i]) + (i + 1 < n ? "." : "");
  return o;
}
static void on_deadlock_enum(const vsched_stats *s) {
  V.code = 86;
  snprintf(V.clause, sizeof V.clause, "deadlock");
  snprintf(V.msg, sizeof V.msg, "%s after choices %s", s->detail, enum_list().substr(0, 200).c_str());
  V.points = s->points; V.preemptions = s->preemptions; V.cond_waits = s->cond_waits; V.threads = s->threads;
  send_verdict();
}
static void scenario_pool_enum(int stratum, int bound, long cap) {
  int w = 1 + stratum % 3, t = (stratum / 3) % 4, protocol = (stratum / 12) % 3;
  if (protocol == 2 && t == 0) protocol = 0;
  if (w == 3 && bound > 1) bound--;   // four threads: the unbounded choices after a block multiply the space (1.1e6 schedules at bound 2, t=2)
  std::vector<unsigned char> prefix;
  long runs = 0, points = 0, pre = 0;
  int complete = 0;
  while (true) {
    pool_run(w, t, protocol, [&] { vsched_begin_enum(prefix.data(), prefix.size(), bound); vsched_on_deadlock = on_deadlock_enum; });
    runs++;
    points += V.points; pre += V.preemptions;
    if (V.code) { snprintf(V.msg + strlen(V.msg), sizeof V.msg - strlen(V.msg), " after choices %s", enum_list().substr(0, 150).c_str()); break; }
    static unsigned char c[4096], k[4096];
    size_t n = vsched_enum_trace(c, k, 4096);
    if (n > 4096) { snprintf(V.clause, sizeof V.clause, "inconclusive"); snprintf(V.msg, sizeof V.msg, "more than 4096 choice points"); break; }
    long i = (long)n - 1;
    while (i >= 0 && c[i] + 1 >= k[i]) i--;
    if (i < 0) { complete = 1; break; }
    prefix.assign(c, c + i);
    prefix.push_back((unsigned char)(c[i] + 1));
    if (runs >= cap) break;
    V.msg[0] = 0;
  }
  V.schedules = runs; V.complete = complete; V.points = points; V.preemptions = pre;
  V.nontrivial = runs >= 2;
  if (!V.code && strcmp(V.clause, "inconclusive") != 0)
    snprintf(V.msg, sizeof V.msg, "[enum w=%d t=%d protocol=%d bound=%d schedules=%ld complete=%d]", w, t, protocol, bound, runs, complete);
}
#endif

// ------------------------------------------------------------------ C09: the parallel block build
static void scenario_blocks(Src &s, const std::vector<uint8_t> &schedule) {
  GenInfo gi;
  int nclass = 2 + s.below(3);  // 3-8, 9-64, 65-600 strings
  std::vector<std::string> S = gen_strings(s, nclass, false, gi);
  Params p;
  p.kind = K_BLOCKS;
  gen_params(s, p, S.size(), gi.total, false, false);
  if (p.threads < 2) p.threads = 2 + s.below(3);
  if (p.threads > 8) p.threads = 8;
  // reference: single thread, outside the scheduler, twice (a difference here is C08's business)
  Params p1 = p;
  p1.threads = 1;
  std::string ref, ref2;
  { StringDictionary *d = build_dict(p1, S); ref = save_image(d); delete d; }
  { StringDictionary *d = build_dict(p1, S); ref2 = save_image(d); delete d; }
  if (ref != ref2) { V.code = 0; V.nontrivial = 0; snprintf(V.clause, sizeof V.clause, "inconclusive"); snprintf(V.msg, sizeof V.msg, "two single-thread builds differ"); return; }
  vsched_on_deadlock = on_deadlock;
  vsched_begin(schedule.data(), schedule.size());
  StringDictionary *d = build_dict(p, S);
  vsched_stats st = vsched_end();
  fill(st);
  std::string img = save_image(d);
  if (img != ref) {
    size_t at = 0;
    while (at < img.size() && at < ref.size() && img[at] == ref[at]) at++;
    fail("image-differs", "image built with " + std::to_string(p.threads) + " threads differs from the single-thread image (sizes " + std::to_string(img.size()) + "/" + std::to_string(ref.size()) + ", first difference at byte " + std::to_string(at) + ", cut " + std::to_string(p.cut) + ", n " + std::to_string(S.size()) + ")");
  }
  // blocks complete and in input order: every ID extracts, and IDs follow the block-local numbering
  if (!V.code) {
    size_t n = S.size();
    std::vector<std::string> got;
    for (size_t id = 1; id <= n; id++) {
      uint len = 0;
      uchar *e = d->extract(id, &len);
      if (!e) { fail("block-incomplete", "extract(" + std::to_string(id) + ") is NULL after the constructor returned"); break; }
      got.emplace_back((char *)e, len);
      delete[] e;
    }
    if (!V.code) {
      std::vector<std::string> sorted = got;
      std::sort(sorted.begin(), sorted.end(), ult);
      if (sorted != S) fail("strings-lost", "the strings extracted from the blocks are not the input set");
    }
  }
  // number of blocks from the image header: tag, maxlength, cut, qty, parts
  uint32_t parts = 0;
  if (img.size() >= 28) memcpy(&parts, img.data() + 24, 4);
  V.blocks = (int)parts;
  delete d;
  V.nontrivial = parts >= 2 && st.preemptions >= 1;
  snprintf(V.msg + strlen(V.msg), sizeof V.msg - strlen(V.msg), " [n=%zu cut=%lu threads=%d blocks=%u]", S.size(), p.cut, p.threads, parts);
}

// ------------------------------------------------------------------ C09, native stage: many tiny blocks, real threads
// The deterministic scheduler pre-empts only at synchronisation calls, so an unsynchronised access of the
// producer (e.g. growing the block vector outside the lock) is atomic under it.  Here the producer and
// 1..16 workers run under the OS scheduler on 50..6000 blocks of one to a few strings - workers complete
// blocks while the producer is still cutting and queueing - in an ASan build: oracle = image equal to the
// single-thread image, every ID extracts, the extracted set is the input, no sanitizer report.
static void scenario_blocks_native(Src &s) {
  XorShift x(s.u32() + 99);
  size_t n = 50 + s.below(s.pick({3, 1}) ? 6000 : 600);
  std::vector<std::string> S;
  std::string cur = "";
  // sorted by construction: fixed-width counter with a short random tail
  for (size_t i = 0; i < n; i++) {
    char buf[40];
    int tail = x.below(6);
    int len = snprintf(buf, sizeof buf, "%06zu", i);
    for (int q = 0; q < tail; q++) buf[len++] = (char)('a' + x.below(26));
    buf[len] = 0;
    S.push_back(buf);
  }
  Params p;
  p.kind = K_BLOCKS;
  p.overhead = (int[]){25, 10, 100, 0}[s.below(4)];
  p.cut = 1 + s.below(48);
  static const int th[] = {2, 4, 8, 16, 1, 3};
  p.threads = th[s.below(6)];
  Params p1 = p;
  p1.threads = 1;
  std::string ref;
  { StringDictionary *d = build_dict(p1, S); ref = save_image(d); delete d; }
  StringDictionary *d = build_dict(p, S);
  std::string img = save_image(d);
  if (img != ref) {
    size_t at = 0;
    while (at < img.size() && at < ref.size() && img[at] == ref[at]) at++;
    fail("image-differs", "image built with " + std::to_string(p.threads) + " threads differs from the single-thread image (sizes " + std::to_string(img.size()) + "/" + std::to_string(ref.size()) + ", first difference at byte " + std::to_string(at) + ")");
  }
  if (!V.code) {
    std::vector<std::string> got;
    for (size_t id = 1; id <= n; id++) {
      uint len = 0;
      uchar *e = d->extract(id, &len);
      if (!e) { fail("block-incomplete", "extract(" + std::to_string(id) + ") is NULL after the constructor returned"); break; }
      got.emplace_back((char *)e, len);
      delete[] e;
    }
    if (!V.code) {
      std::sort(got.begin(), got.end(), ult);
      if (got != S) fail("strings-lost", "the strings extracted from the blocks are not the input set");
    }
  }
  uint32_t parts = 0;
  if (img.size() >= 28) memcpy(&parts, img.data() + 24, 4);
  V.blocks = (int)parts;
  V.threads = p.threads + 1;
  delete d;
  V.nontrivial = parts >= 50;
  snprintf(V.msg + strlen(V.msg), sizeof V.msg - strlen(V.msg), " [native n=%zu cut=%lu threads=%d blocks=%u]", n, p.cut, p.threads, parts);
}

#ifndef VERIF_NATIVE
// ------------------------------------------------------------------ C09, enumeration stage
// One case = one configuration (2-4 one-string blocks, 1-3 worker threads, overhead); every schedule with
// at most `bound` pre-emptions is executed in-process and compared with the single-thread image.
static void scenario_blocks_enum(int stratum, int bound, long cap) {
  int threads = 1 + stratum % 3, nblocks = 2 + (stratum / 3) % 3;
  std::vector<std::string> S;
  for (int i = 0; i < nblocks; i++) S.push_back(std::string(1, (char)('a' + i)) + (i % 2 ? "xy" : "x"));
  Params p;
  p.kind = K_BLOCKS;
  p.overhead = (stratum / 9) % 2 ? 0 : 25;
  p.cut = 1;
  p.threads = threads;
  Params p1 = p;
  p1.threads = 1;
  std::string ref;
  { StringDictionary *d = build_dict(p1, S); ref = save_image(d); delete d; }
  if (threads == 3 && bound > 1) bound--;
  std::vector<unsigned char> prefix;
  long runs = 0, points = 0, pre = 0;
  int complete = 0;
  vsched_on_deadlock = on_deadlock_enum;
  while (true) {
    vsched_begin_enum(prefix.data(), prefix.size(), bound);
    vsched_on_deadlock = on_deadlock_enum;
    StringDictionary *d = build_dict(p, S);
    vsched_stats st = vsched_end();
    runs++;
    points += st.points; pre += st.preemptions;
    V.threads = st.threads;
    std::string img = save_image(d);
    if (img != ref) fail("image-differs", "image built with " + std::to_string(threads) + " threads differs from the single-thread image");
    for (size_t id = 1; id <= S.size() && !V.code; id++) {
      uint len = 0;
      uchar *e = d->extract(id, &len);
      if (!e) { fail("block-incomplete", "extract(" + std::to_string(id) + ") is NULL after the constructor returned"); break; }
      if (std::string((char *)e, len) != S[id - 1]) fail("strings-lost", "extract(" + std::to_string(id) + ") is not the input string of that block");
      delete[] e;
    }
    delete d;
    if (V.code) { snprintf(V.msg + strlen(V.msg), sizeof V.msg - strlen(V.msg), " after choices %s", enum_list().substr(0, 150).c_str()); break; }
    static unsigned char c[4096], k[4096];
    size_t n = vsched_enum_trace(c, k, 4096);
    if (n > 4096) { snprintf(V.clause, sizeof V.clause, "inconclusive"); snprintf(V.msg, sizeof V.msg, "more than 4096 choice points"); break; }
    long i = (long)n - 1;
    while (i >= 0 && c[i] + 1 >= k[i]) i--;
    if (i < 0) { complete = 1; break; }
    prefix.assign(c, c + i);
    prefix.push_back((unsigned char)(c[i] + 1));
    if (runs >= cap) break;
  }
  V.schedules = runs; V.complete = complete; V.points = points; V.preemptions = pre;
  V.blocks = nblocks;
  V.nontrivial = runs >= 2;
  if (!V.code && strcmp(V.clause, "inconclusive") != 0)
    snprintf(V.msg, sizeof V.msg, "[enum blocks=%d threads=%d overhead=%d bound=%d schedules=%ld complete=%d]", nblocks, threads, p.overhead, bound, runs, complete);
}
#endif

// ------------------------------------------------------------------ entry
int run_case(const uint8_t *data, size_t n, CaseCtx &ctx) {
  const std::string &P = cfg.prop;
  // layout: [scenario bytes: up to 24 (C10) / 400 (C09)] then the schedule
  size_t head = P == "C10" ? std::min<size_t>(n, 4) : std::min<size_t>(n, n * 2 / 3);
  std::vector<uint8_t> schedule(data + head, data + n);
  int pfd[2];
  if (pipe(pfd) != 0) return 0;
  fflush(stdout);
  pid_t pid = fork();
  if (pid == 0) {
    close(pfd[0]);
    out_fd = pfd[1];
    memset(&V, 0, sizeof V);
    Src s(data, head);
    alarm(60);  // scheduler lost control (something blocks outside the interposed primitives)
#ifdef VERIF_NATIVE
    {
      Src sn(data, n);
      scenario_blocks_native(sn);
      // sanitizer reports of this child (a store into a freed vector buffer, ...) are events of the case
      if (!V.code && ctx.asan_reports) {
        std::string m = "sanitizer report during the parallel build";
        for (auto &e : ctx.events) if (e.sig.compare(0, 5, "asan/") == 0) { m = e.sig + " " + e.msg.substr(0, 250); break; }
        fail("asan", m);
      }
    }
#else
    if (cfg.param.compare(0, 4, "enum") == 0) {
      // param: enum:<bound>:<cap>
      int bound = 2; long cap = 200000;
      sscanf(cfg.param.c_str(), "enum:%d:%ld", &bound, &cap);
      alarm(3000);
      if (P == "C10") scenario_pool_enum(cfg.stratum < 0 ? 0 : cfg.stratum, bound, cap);
      else scenario_blocks_enum(cfg.stratum < 0 ? 0 : cfg.stratum, bound, cap);
    }
    else if (P == "C10") scenario_pool(s, schedule);
    else scenario_blocks(s, schedule);
#endif
    send_verdict();
    _exit(0);
  }
  close(pfd[1]);
  Verdict v;
  memset(&v, 0, sizeof v);
  ssize_t r = read(pfd[0], &v, sizeof v);
  close(pfd[0]);
  int status = 0;
  waitpid(pid, &status, 0);
  ctx.kind = P == "C10" ? "WorkerPool" : "BLOCKS";
  ctx.state = "-";
  ctx.op = "schedule";
  ctx.hash = fnv(data, n, fnv_str(P, 1469598103934665603ULL));
  if (cfg.param.compare(0, 4, "enum") == 0) ctx.hash = fnv_u64((uint64_t)cfg.stratum, fnv_str(cfg.param, ctx.hash));
  if (r != (ssize_t)sizeof v) {
    if (WIFSIGNALED(status) && WTERMSIG(status) == SIGALRM) { ctx.conclusive = false; ctx.inconclusive_reason = "scheduler-lost-control"; }
    else if (WIFSIGNALED(status)) ctx.event(P.c_str(), "crash", "child died with signal " + std::to_string(WTERMSIG(status)));
    else { ctx.conclusive = false; ctx.inconclusive_reason = "no-verdict"; }
    return 0;
  }
  ctx.counters["sched_points"] += (int)std::min<long>(v.points, 1 << 30);
  ctx.counters["preemptions"] += (int)std::min<long>(v.preemptions, 1 << 30);
  ctx.counters["cond_waits"] += (int)std::min<long>(v.cond_waits, 1 << 30);
  ctx.nontrivial = v.nontrivial;
  if (v.threads >= 3) ctx.labels.insert("threads_ge3");
  if (v.preemptions >= 3) ctx.labels.insert("preemptions_ge3");
  if (v.blocks >= 2) ctx.labels.insert("blocks_ge2");
  if (v.blocks >= 4) ctx.labels.insert("blocks_ge4");
  if (v.blocks >= 1000) ctx.labels.insert("blocks_ge1000");
  if (v.notify_lost) ctx.labels.insert("notify_without_waiter");
  if (v.schedules) { ctx.counters["enum_schedules"] += (int)std::min<long>(v.schedules, 1 << 30); ctx.labels.insert(v.complete ? "enum_complete" : "enum_capped"); }
  ctx.sample = std::string("{\"scenario\":\"") + (P == "C10" ? "pool" : "blocks") + "\",\"detail\":\"" + jesc(v.msg) + "\",\"threads\":" + std::to_string(v.threads) + ",\"sched_points\":" + std::to_string(v.points) + ",\"preemptions\":" + std::to_string(v.preemptions) + ",\"schedule_bytes\":" + std::to_string(schedule.size()) + "}";
  if (cfg.trace) real_err("CASE %s\n", ctx.sample.c_str());
  if (strcmp(v.clause, "inconclusive") == 0) { ctx.conclusive = false; ctx.inconclusive_reason = v.msg; return 0; }
  if (v.code == 86) {
    // a deadlock of the pool is C10's event; for C09 the case is inconclusive
    if (P == "C10") ctx.event("C10", "deadlock", std::string("all threads blocked: ") + v.msg);
    else { ctx.conclusive = false; ctx.inconclusive_reason = "pool-deadlock"; ctx.event("C10", "deadlock", std::string("all threads blocked: ") + v.msg); }
  } else if (v.code == 1) ctx.event(P.c_str(), v.clause, v.msg);
  return 0;
}

}  // namespace vh
