#include "common.h"

#include <fcntl.h>
#include <pthread.h>
#include <setjmp.h>
#include <signal.h>
#include <stdarg.h>
#include <sys/mman.h>
#include <sys/stat.h>
#include <sys/time.h>
#include <unistd.h>

#include <fstream>
#include <sstream>

extern "C" {
// sanitizer interface (weak: absent in plain / tsan builds)
void __asan_set_error_report_callback(void (*)(const char *)) __attribute__((weak));
void __sanitizer_set_death_callback(void (*)(void)) __attribute__((weak));
void __sanitizer_symbolize_pc(void *pc, const char *fmt, char *out, size_t out_size) __attribute__((weak));
void __sanitizer_print_stack_trace(void) __attribute__((weak));
}

namespace vh {

Config cfg;
CaseCtx *cur = nullptr;

static int real_out_fd = 1, real_err_fd = 2, cap_fd = -1, cases_fd = -1, samples_fd = -1;
static off_t cap_mark = 0;
static int samples_written = 0;

void real_err(const char *fmt, ...) {
  char buf[8192];
  va_list ap;
  va_start(ap, fmt);
  int n = vsnprintf(buf, sizeof buf, fmt, ap);
  va_end(ap);
  if (n > (int)sizeof buf) n = sizeof buf;
  if (n > 0) (void)!write(real_err_fd, buf, n);
}

std::string jesc(const std::string &s) {
  std::string o;
  char b[8];
  for (unsigned char c : s) {
    if (c == '"' || c == '\\') { o += '\\'; o += (char)c; }
    else if (c < 0x20 || c >= 0x7f) { snprintf(b, sizeof b, "\\u%04x", c); o += b; }
    else o += (char)c;
  }
  return o;
}

std::string hexs(const std::string &s) {
  std::string o;
  char b[8];
  for (unsigned char c : s) {
    if (c == '\\') o += "\\\\";
    else if (c < 0x21 || c >= 0x7f) { snprintf(b, sizeof b, "\\x%02X", c); o += b; }
    else o += (char)c;
  }
  return o;
}

void write_file(const std::string &path, const void *d, size_t n) {
  int fd = open(path.c_str(), O_WRONLY | O_CREAT | O_TRUNC, 0644);
  if (fd < 0) return;
  (void)!write(fd, d, n);
  close(fd);
}

// ------------------------------------------------------------ known findings
// line format:
//   finding: property=C01 id=F01 where=kind:RPDAC;feat:last_single;op:extract [skip] replay=<path> :: text
void load_findings(const std::string &path) {
  std::ifstream in(path);
  std::string line;
  while (std::getline(in, line)) {
    if (line.compare(0, 8, "finding:") != 0) continue;
    Finding f;
    std::string rest = line.substr(8);
    size_t dd = rest.find("::");
    if (dd != std::string::npos) {
      f.desc = rest.substr(dd + 2);
      while (!f.desc.empty() && f.desc[0] == ' ') f.desc.erase(0, 1);
      rest = rest.substr(0, dd);
    }
    std::istringstream ss(rest);
    std::string tok;
    while (ss >> tok) {
      if (tok == "skip") f.skip = true;
      else if (tok.compare(0, 9, "property=") == 0) f.prop = tok.substr(9);
      else if (tok.compare(0, 3, "id=") == 0) f.id = tok.substr(3);
      else if (tok.compare(0, 7, "replay=") == 0) f.replay = tok.substr(7);
      else if (tok.compare(0, 6, "where=") == 0) {
        std::string w = tok.substr(6);
        size_t a = 0;
        while (a < w.size()) {
          size_t b = w.find(';', a);
          if (b == std::string::npos) b = w.size();
          std::string atom = w.substr(a, b - a);
          size_t c = atom.find(':');
          if (c != std::string::npos) f.atoms.push_back({atom.substr(0, c), atom.substr(c + 1)});
          a = b + 1;
        }
      }
    }
    if (const char *dis = getenv("VERIF_DISABLE_FINDING")) {  // development aid: regenerate a finding's replay file
      if (("," + std::string(dis) + ",").find("," + f.id + ",") != std::string::npos) continue;
    }
    if (!f.prop.empty()) cfg.findings.push_back(f);
  }
}

bool finding_matches(const Finding &f, const std::string &prop, const std::string &kind, const std::string &state,
                     const std::string &op, const std::string &clause, const std::set<std::string> &feats,
                     const std::string &sig, bool for_skip) {
  if (for_skip) {
    if (!f.skip) return false;
  } else {
    if (f.prop != prop) return false;
  }
  for (auto &a : f.atoms) {
    const std::string &k = a.first, &v = a.second;
    if (k == "kind") { if (v != kind) return false; }
    else if (k == "state") { if (v != state) return false; }
    else if (k == "op") { if (v != op) return false; }
    else if (k == "clause") { if (for_skip) continue; if (clause.compare(0, v.size(), v) != 0) return false; }
    else if (k == "feat") { if (!feats.count(v)) return false; }
    else if (k == "nofeat") { if (feats.count(v)) return false; }
    else if (k == "sig") { if (for_skip) continue; if (sig.find(v) == std::string::npos) return false; }
    else return false;
  }
  return true;
}

void CaseCtx::set_op(const char *o) {
  op = o;
  if (cfg.trace) real_err("OP kind=%s state=%s op=%s\n", kind.c_str(), state.c_str(), o);
}

bool CaseCtx::skip(const char *o) {
  for (auto &f : cfg.findings)
    if (finding_matches(f, "", kind, state, o, "", feats, "", true)) {
      excluded++;
      known_hits[f.id + "(skipped)"]++;
      return true;
    }
  set_op(o);
  return false;
}

void CaseCtx::event(const char *prop, const char *clause, const std::string &msg, const std::string &sig) {
  Event e;
  e.prop = prop; e.clause = clause; e.kind = kind; e.state = state; e.op = op; e.msg = msg;
  e.sig = sig.empty() ? (std::string(prop) + "/" + clause + "/" + kind + "/" + state + "/" + op) : sig;
  for (auto &f : cfg.findings)
    if (finding_matches(f, e.prop, kind, state, op, clause, feats, e.sig, false)) {
      e.known = true;
      e.finding_id = f.id;
      known_hits[f.id]++;
      break;
    }
  if (events.size() < 200) events.push_back(e);
  if (cfg.trace) real_err("EVENT %s %s known=%d :: %s\n", e.prop.c_str(), e.sig.c_str(), (int)e.known, e.msg.c_str());
}

int CaseCtx::reportable(const std::string &prop) const {
  int n = 0;
  for (auto &e : events)
    if (e.prop == prop && !e.known) n++;
  return n;
}

// ------------------------------------------------------------ sanitizer callback
static std::map<uintptr_t, std::string> symcache;

static std::string symbolize(uintptr_t pc) {
  auto it = symcache.find(pc);
  if (it != symcache.end()) return it->second;
  std::string r;
  if (__sanitizer_symbolize_pc) {
    char buf[1024];
    buf[0] = 0;
    __sanitizer_symbolize_pc((void *)pc, "%f|%s", buf, sizeof buf);
    r = buf;
  }
  symcache[pc] = r;
  return r;
}

static std::string short_fn(const std::string &fn) {
  // strip the argument list
  size_t p = fn.find('(');
  std::string s = p == std::string::npos ? fn : fn.substr(0, p);
  return s;
}

std::string asan_also_prop;

static void asan_cb(const char *report) {
  if (!cur) return;
  cur->asan_reports++;
  if (cur->asan_reports > 50) return;  // a shallow defect can fire thousands of times
  std::string rep(report);
  std::string cls = "unknown", rw = "-";
  size_t p = rep.find("AddressSanitizer: ");
  if (p != std::string::npos) {
    size_t q = rep.find_first_of(" \n", p + 18);
    cls = rep.substr(p + 18, q - (p + 18));
  }
  if (rep.find("\nWRITE of size") != std::string::npos) rw = "W";
  else if (rep.find("\nREAD of size") != std::string::npos) rw = "R";
  // frames of the first stack; with symbolize=1: "    #k 0xPC in FUNC FILE:LINE:COL"
  std::string where = "?";
  size_t pos = rep.find("    #0 0x");
  int k = 0, nchain = 0;
  std::string chain;
  while (pos != std::string::npos && k < 20) {
    size_t nl = rep.find('\n', pos);
    std::string line = rep.substr(pos, (nl == std::string::npos ? rep.size() : nl) - pos);
    std::string fn, file;
    size_t in = line.find(" in ");
    if (in != std::string::npos) {
      std::string rest = line.substr(in + 4);
      size_t sp = rest.rfind(' ');
      if (sp != std::string::npos && rest.find('/', sp) != std::string::npos) { file = rest.substr(sp + 1); rest = rest.substr(0, sp); }
      fn = rest;
    } else {
      uintptr_t pc = strtoull(line.c_str() + 7, nullptr, 16);
      std::string s2 = symbolize(pc - 1);
      size_t bar = s2.find('|');
      fn = bar == std::string::npos ? s2 : s2.substr(0, bar);
      file = bar == std::string::npos ? "" : s2.substr(bar + 1);
    }
    bool lib = !file.empty() && file.compare(0, 5, "/usr/") != 0 && file.find("/harness/") == std::string::npos &&
               file.find("compiler-rt") == std::string::npos && file.find("/sched/") == std::string::npos;
    if (lib && where == "?") where = short_fn(fn);
    if (lib && nchain < 5) { chain += (nchain ? " < " : ""); chain += short_fn(fn); nchain++; }
    if (nl == std::string::npos) break;
    char nxt[16];
    snprintf(nxt, sizeof nxt, "    #%d 0x", k + 1);
    if (rep.compare(nl + 1, strlen(nxt), nxt) != 0) break;
    pos = nl + 1;
    k++;
  }
  std::string sig = "asan/" + cls + "/" + rw + "/" + where;
  bool taints = (rw == "W") || cls == "attempting" || cls.find("free") != std::string::npos ||
                cls == "SEGV" || cls == "stack-overflow";
  if (taints) cur->tainted = true;
  std::string first = rep.substr(0, rep.find('\n', p == std::string::npos ? 0 : p));
  cur->event("C07", ("asan:" + cls + ":" + rw).c_str(), first + " [" + chain + "]", sig);
  // C02: the statement itself says the failing look-ups must not touch foreign memory
  if (cur->op == "locate_absent" || cur->op == "extract_bad")
    cur->event("C02", ("asan:" + cls + ":" + rw).c_str(), first + " [" + chain + "]", "C02/" + sig);
  if (!asan_also_prop.empty())
    cur->event(asan_also_prop.c_str(), ("asan:" + cls + ":" + rw).c_str(), first + " [" + chain + "]", asan_also_prop + "/" + sig);
}

// ------------------------------------------------------------ fatal signals inside library calls
static sigjmp_buf guard_env;
static volatile sig_atomic_t guard_armed = 0;
static volatile sig_atomic_t guard_sig = 0;
int guard_budget_s = 40;
static struct BudgetInit { BudgetInit() { if (const char *e = getenv("VERIF_GUARD_S")) guard_budget_s = atoi(e); } } budget_init;

static pthread_t guard_thread;
static void on_fatal(int sig) {
  // timer signals are process-directed and may land on a worker thread of the code under test:
  // hand them to the thread that owns the jump buffer
  if (guard_armed && (sig == SIGALRM || sig == SIGVTALRM) && !pthread_equal(pthread_self(), guard_thread)) {
    pthread_kill(guard_thread, sig);
    return;
  }
  if (guard_armed && !pthread_equal(pthread_self(), guard_thread)) {
    // a fatal signal on another thread of the code under test: cannot be unwound from here
    signal(sig, SIG_DFL);
    raise(sig);
    return;
  }
  if (guard_armed) {
    guard_armed = 0;
    guard_sig = sig;
    siglongjmp(guard_env, 1);
  }
  // outside a guarded region: leave a stack trace for the driver's log, then die the normal way
  {
    char msg[128];
    int n = snprintf(msg, sizeof msg, "FATAL signal %d outside a guarded library call (op %s)\n", sig, cur ? cur->op.c_str() : "-");
    if (n > 0) (void)!write(real_err_fd, msg, n);
    if (__sanitizer_print_stack_trace) { dup2(real_err_fd, 2); __sanitizer_print_stack_trace(); }
  }
  signal(sig, SIG_DFL);
  raise(sig);
}

static bool catching() {
  static int v = -1;
  if (v < 0) v = getenv("VERIF_NOCATCH") ? 0 : 1;
  return v;
}

static void install_handlers() {
  if (!catching()) return;
  static char altstack[1 << 16];
  stack_t ss;
  ss.ss_sp = altstack;
  ss.ss_size = sizeof altstack;
  ss.ss_flags = 0;
  sigaltstack(&ss, nullptr);
  struct sigaction sa;
  memset(&sa, 0, sizeof sa);
  sa.sa_handler = on_fatal;
  sa.sa_flags = SA_NODEFER | SA_ONSTACK;
  int sigs[] = {SIGSEGV, SIGBUS, SIGFPE, SIGILL, SIGABRT, SIGVTALRM};
  for (int sg : sigs) sigaction(sg, &sa, nullptr);
}

bool guarded(const std::function<void()> &f) {
  if (!catching()) { f(); return true; }
  // watchdog in CPU time of this process (machine load cannot trigger it): library calls take
  // micro- to milliseconds, constructions of the largest generated inputs a few seconds
  struct itimerval tv, off;
  memset(&tv, 0, sizeof tv);
  memset(&off, 0, sizeof off);
  tv.it_value.tv_sec = guard_budget_s;
  guard_thread = pthread_self();
  if (sigsetjmp(guard_env, 1) == 0) {
    guard_armed = 1;
    setitimer(ITIMER_VIRTUAL, &tv, nullptr);
    f();
    setitimer(ITIMER_VIRTUAL, &off, nullptr);
    guard_armed = 0;
    return true;
  }
  setitimer(ITIMER_VIRTUAL, &off, nullptr);
  guard_armed = 0;
  if (cur) {
    const char *nm = guard_sig == SIGVTALRM ? "HANG" : guard_sig == SIGSEGV ? "SEGV" : guard_sig == SIGBUS ? "BUS" : guard_sig == SIGFPE ? "FPE" : guard_sig == SIGILL ? "ILL" : guard_sig == SIGABRT ? "ABRT" : "SIG";
    cur->tainted = true;
    cur->crashed = true;
    if (guard_sig == SIGVTALRM && !cur->feats.count("tiny_text")) {
      // slow is not wrong: only on tiny inputs (where every call takes micro- to milliseconds) is a
      // call that burns the whole CPU budget reported as non-termination; otherwise inconclusive
      cur->conclusive = false;
      cur->inconclusive_reason = "slow-op:" + cur->op;
      cur->slow = true;
      return false;
    }
    std::string sig = std::string("sig/") + nm + "/" + cur->kind + "/" + cur->state + "/" + cur->op;
    cur->event("C07", (std::string("signal:") + nm).c_str(), std::string("fatal signal ") + nm + " inside " + cur->op, sig);
  }
  return false;
}

// ------------------------------------------------------------ capture of stdout/stderr
// a fatal sanitizer error (out of memory, ...) ends the process with the report sitting in the capture file:
// copy its tail to the real stderr so that the driver can tell a resource limit from a defect
static void on_sanitizer_death() {
  if (cap_fd < 0 || real_err_fd < 0) return;
  off_t end = lseek(cap_fd, 0, SEEK_END);
  static char buf[262144];
  off_t from = end > (off_t)sizeof buf ? end - (off_t)sizeof buf : 0;
  ssize_t n = pread(cap_fd, buf, sizeof buf, from);
  if (n <= 0) return;
  // the lines that name the cause (a memory map of many KB may follow them)
  size_t out = 0;
  for (ssize_t a = 0; a < n && out < 4000;) {
    ssize_t b = a;
    while (b < n && buf[b] != '\n') b++;
    if (memmem(buf + a, (size_t)(b - a), "Sanitizer", 9) || memmem(buf + a, (size_t)(b - a), "allocate", 8) || memmem(buf + a, (size_t)(b - a), "memory", 6)) {
      (void)!write(real_err_fd, buf + a, (size_t)(b - a));
      (void)!write(real_err_fd, "\n", 1);
      out += (size_t)(b - a) + 1;
    }
    a = b + 1;
  }
}

void init_runtime() {
  real_out_fd = dup(1);
  real_err_fd = dup(2);
  cap_fd = memfd_create("verif_capture", 0);
  if (cap_fd >= 0 && !getenv("VERIF_NOCAPTURE")) {
    fflush(stdout);
    fflush(stderr);
    dup2(cap_fd, 1);
    dup2(cap_fd, 2);
  }
  if (__asan_set_error_report_callback) __asan_set_error_report_callback(asan_cb);
  if (__sanitizer_set_death_callback) __sanitizer_set_death_callback(on_sanitizer_death);
  install_handlers();
  if (!cfg.logdir.empty()) {
    char path[4096];
    snprintf(path, sizeof path, "%s/w%d.cases", cfg.logdir.c_str(), cfg.worker);
    cases_fd = open(path, O_WRONLY | O_CREAT | O_APPEND, 0644);
    snprintf(path, sizeof path, "%s/w%d.samples", cfg.logdir.c_str(), cfg.worker);
    samples_fd = open(path, O_WRONLY | O_CREAT | O_APPEND, 0644);
  }
}

int real_stdout_fd() { return real_out_fd; }

void mark_capture() {
  fflush(stdout);
  cap_mark = lseek(cap_fd, 0, SEEK_CUR);
}

std::string captured_since_mark() {
  fflush(stdout);
  off_t end = lseek(cap_fd, 0, SEEK_CUR);
  std::string s;
  if (end > cap_mark) {
    size_t n = end - cap_mark;
    if (n > (1 << 20)) n = 1 << 20;
    s.resize(n);
    ssize_t r = pread(cap_fd, &s[0], n, cap_mark);
    if (r < 0) r = 0;
    s.resize(r);
  }
  return s;
}

static off_t case_cap_start = 0;

void begin_case(CaseCtx &c, const uint8_t *data, size_t n) {
  cur = &c;
  if (cap_fd >= 0) {
    fflush(stdout);
    off_t end = lseek(cap_fd, 0, SEEK_CUR);
    if (end > (8 << 20)) {  // keep the capture small
      (void)!ftruncate(cap_fd, 0);
      lseek(cap_fd, 0, SEEK_SET);
      end = 0;
    }
    case_cap_start = end;
    cap_mark = end;
  }
  if (!cfg.logdir.empty() && !cfg.replay) {
    // breadcrumb: lets the driver attribute a hard crash to a case
    char path[4096];
    snprintf(path, sizeof path, "%s/w%d.cur", cfg.logdir.c_str(), cfg.worker);
    write_file(path, data, n);
  }
}

void end_case(CaseCtx &c) {
  // UBSan (array-bounds / null) diagnostics arrive on stderr
  if (cap_fd >= 0) {
    cap_mark = case_cap_start;
    std::string cap = captured_since_mark();
    size_t p = 0;
    int found = 0;
    while ((p = cap.find("runtime error:", p)) != std::string::npos && found < 20) {
      size_t ls = cap.rfind('\n', p);
      ls = ls == std::string::npos ? 0 : ls + 1;
      size_t le = cap.find('\n', p);
      std::string line = cap.substr(ls, (le == std::string::npos ? cap.size() : le) - ls);
      // "<file>:<line>:<col>: runtime error: ..." ; signature = file:line
      std::string loc = line.substr(0, line.find(": runtime error"));
      size_t sl = loc.rfind('/');
      std::string base = sl == std::string::npos ? loc : loc.substr(sl + 1);
      size_t c2 = base.rfind(':');
      if (c2 != std::string::npos) base = base.substr(0, c2);  // drop the column
      c.op = "any";
      c.event("C07", "ubsan", line, "ubsan/" + base);
      found++;
      p = le == std::string::npos ? cap.size() : le;
    }
  }
  if (cases_fd >= 0) {
    std::string l;
    char b[64];
    snprintf(b, sizeof b, "%016llx ", (unsigned long long)c.hash);
    l += b;
    l += c.nontrivial ? "1 " : "0 ";
    l += c.conclusive ? "1 " : "0 ";
    l += c.tainted ? "1 " : "0 ";
    l += (c.kind.empty() ? "-" : c.kind) + " ";
    snprintf(b, sizeof b, "%d %d ", c.reportable(cfg.prop), c.excluded);
    l += b;
    std::string ls;
    for (auto &x : c.labels) { if (!ls.empty()) ls += ","; ls += x; }
    l += ls.empty() ? "-" : ls;
    l += " ";
    std::string cs;
    for (auto &x : c.counters) { if (!cs.empty()) cs += ","; cs += x.first + "=" + std::to_string(x.second); }
    for (auto &x : c.known_hits) { if (!cs.empty()) cs += ","; cs += "known:" + x.first + "=" + std::to_string(x.second); }
    if (!c.inconclusive_reason.empty()) { if (!cs.empty()) cs += ","; cs += "inconclusive:" + c.inconclusive_reason + "=1"; }
    l += cs.empty() ? "-" : cs;
    l += "\n";
    (void)!write(cases_fd, l.data(), l.size());
  }
  if (samples_fd >= 0 && samples_written < 4 && c.nontrivial && c.conclusive && !c.sample.empty()) {
    std::string l = c.sample + "\n";
    (void)!write(samples_fd, l.data(), l.size());
    samples_written++;
  }
  cur = nullptr;
}

}  // namespace vh
