// Shared harness layer: byte source, events, known findings, labels, logs.
// Contains nothing from rapidcheck and nothing from /repo.
#pragma once
#include <cstdint>
#include <cstdio>
#include <cstring>
#include <functional>
#include <map>
#include <set>
#include <string>
#include <vector>

namespace vh {

// ---------------------------------------------------------------- byte source
// Sequential decode; exhausted input yields zeros; zero = simplest choice.
struct Src {
  const uint8_t *p;
  size_t n, i;
  Src(const uint8_t *p_, size_t n_) : p(p_), n(n_), i(0) {}
  bool exhausted() const { return i >= n; }
  size_t left() const { return i < n ? n - i : 0; }
  uint8_t byte() { return i < n ? p[i++] : 0; }
  uint32_t u16() { uint32_t a = byte(); return a | (uint32_t(byte()) << 8); }
  uint32_t u32() { uint32_t a = u16(); return a | (u16() << 16); }
  // value in [0,m) ; m<=256 takes one byte, else two
  uint32_t below(uint32_t m) {
    if (m <= 1) return 0;
    if (m <= 256) return byte() % m;
    if (m <= 65536) return u16() % m;
    return u32() % m;
  }
  // weighted choice: returns index; weights sum <= 256; index 0 is the simplest
  uint32_t pick(std::initializer_list<int> w) {
    int tot = 0;
    for (int x : w) tot += x;
    int r = byte() % tot, k = 0;
    for (int x : w) {
      if (r < x) return k;
      r -= x;
      k++;
    }
    return 0;
  }
};

// ---------------------------------------------------------------- hashing
inline uint64_t fnv(const void *d, size_t n, uint64_t h = 1469598103934665603ULL) {
  const uint8_t *p = (const uint8_t *)d;
  for (size_t i = 0; i < n; i++) { h ^= p[i]; h *= 1099511628211ULL; }
  return h;
}
inline uint64_t fnv_u64(uint64_t v, uint64_t h) { return fnv(&v, 8, h); }
inline uint64_t fnv_str(const std::string &s, uint64_t h) {
  h = fnv_u64(s.size(), h);
  return fnv(s.data(), s.size(), h);
}

// xorshift stream for deterministic expansion inside a decoder (pure function of case bytes)
struct XorShift {
  uint64_t s;
  explicit XorShift(uint64_t seed) : s(seed * 0x9E3779B97F4A7C15ULL + 0x1234567ULL) { if (!s) s = 1; }
  uint64_t next() { s ^= s << 13; s ^= s >> 7; s ^= s << 17; return s; }
  uint32_t below(uint32_t m) { return m ? (uint32_t)(next() >> 11) % m : 0; }
};

// ---------------------------------------------------------------- events
struct Event {
  std::string prop, clause, kind, state, op, sig, msg;
  bool known = false;      // matched a finding record
  std::string finding_id;  // id of that record
};

struct Finding {
  std::string prop, id, desc, replay;
  bool skip = false;  // pre-op exclusion (crashing defect): applies to every property
  std::vector<std::pair<std::string, std::string>> atoms;  // kind/state/op/clause/feat/sig
};

struct Config {
  std::string prop = "C01";
  int stratum = -1;          // -1: decoded from the case
  std::string logdir;        // empty: no logs
  int worker = 0;
  bool replay = false;
  bool trace = false;        // print op breadcrumbs to the real stderr
  bool thorough = false;
  std::vector<Finding> findings;
  std::string param;         // free-form per family
};
extern Config cfg;

// One executed case
struct CaseCtx {
  std::vector<Event> events;
  std::set<std::string> feats;    // case-level features (for finding predicates)
  std::set<std::string> labels;   // coverage labels
  bool nontrivial = false;
  bool conclusive = true;
  bool tainted = false;
  std::string inconclusive_reason;
  uint64_t hash = 0;
  std::string kind, state, op;    // current breadcrumb
  std::string sample;             // JSON rendering of the decoded case
  int excluded = 0;               // ops skipped because of a finding
  std::map<std::string, int> known_hits;
  std::map<std::string, int> counters;   // free-form numeric coverage counters
  int asan_reports = 0;
  bool crashed = false;   // a fatal signal was caught inside a library call
  bool slow = false;      // the CPU watchdog stopped a call on a non-tiny input (inconclusive)

  void set_op(const char *o);
  // returns true if op must not be executed (known crashing defect)
  bool skip(const char *o);
  void event(const char *prop, const char *clause, const std::string &msg, const std::string &sig = "");
  int reportable(const std::string &prop) const;  // events of prop not matched by a finding
};
extern CaseCtx *cur;
// a property (besides C07) whose statement itself forbids memory errors in the operation in flight; set by
// the sweeps around such operations (C04: prefix search without a match), empty otherwise
extern std::string asan_also_prop;

// ---------------------------------------------------------------- plumbing
void load_findings(const std::string &path);
bool finding_matches(const Finding &f, const std::string &prop, const std::string &kind, const std::string &state,
                     const std::string &op, const std::string &clause, const std::set<std::string> &feats,
                     const std::string &sig, bool for_skip);
void init_runtime();             // stdout/stderr capture, sanitizer callback
void begin_case(CaseCtx &c, const uint8_t *data, size_t n);
void end_case(CaseCtx &c);       // collects captured stderr (UBSan lines) and writes the log line
std::string captured_since_mark();   // library chatter written since the last mark
void mark_capture();
void real_err(const char *fmt, ...);  // write to the original stderr
std::string jesc(const std::string &s);   // JSON string escape (bytes >=0x80 and controls as \u00XX)
std::string hexs(const std::string &s);   // printable rendering with \xNN
void write_file(const std::string &path, const void *d, size_t n);

// Runs f with fatal signals (SEGV, BUS, FPE, ILL, ABRT) turned into an event of the operation in
// flight: returns false if f died.  The case is tainted; the owner of the op is told through on_crash.
bool guarded(const std::function<void()> &f);
extern int guard_budget_s;   // CPU seconds a guarded call may take before it is reported as a hang

// implemented by each family
int run_case(const uint8_t *data, size_t n, CaseCtx &c);
const char *family_name();

}  // namespace vh
