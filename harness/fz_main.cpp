// libFuzzer entry: the same run_case as the rapidcheck driver.  Input = case file format
// ([u16 stratum+1][payload]), so a crash artifact replays with `verif.py replay`.
#include <unistd.h>

#include <cstdio>
#include <cstdlib>
#include <cstring>
#include <string>
#include <vector>

#include "common.h"

using namespace vh;

static bool inited = false;
static std::string out_dir;
static std::vector<int> allowed;   // strata this stage owns (VERIF_FZ_STRATA); empty = any

extern "C" int LLVMFuzzerInitialize(int *argc, char ***argv) {
  // options after "--" style env: VERIF_FZ_PROP, VERIF_FZ_KNOWN, VERIF_FZ_OUT, VERIF_FZ_LOG, VERIF_FZ_WORKER
  (void)argc; (void)argv;
  if (const char *p = getenv("VERIF_FZ_PROP")) cfg.prop = p;
  if (const char *k = getenv("VERIF_FZ_KNOWN")) load_findings(k);
  if (const char *o = getenv("VERIF_FZ_OUT")) out_dir = o;
  if (const char *l = getenv("VERIF_FZ_LOG")) cfg.logdir = l;
  if (const char *w = getenv("VERIF_FZ_WORKER")) cfg.worker = atoi(w);
  if (const char *a = getenv("VERIF_FZ_STRATA")) {
    for (const char *q = a; *q;) {
      allowed.push_back(atoi(q));
      while (*q && *q != ',') q++;
      if (*q == ',') q++;
    }
  }
  setenv("VERIF_NOCAPTURE", "1", 1);  // libFuzzer prints its own statistics on stderr
  init_runtime();
  inited = true;
  return 0;
}

extern "C" int LLVMFuzzerTestOneInput(const uint8_t *data, size_t size) {
  if (!inited) LLVMFuzzerInitialize(nullptr, nullptr);
  if (size < 2) return 0;
  uint32_t h = data[0] | (data[1] << 8);
  cfg.stratum = (int)h - 1;
  if (cfg.stratum > 4096) return 0;
  if (!allowed.empty()) {
    // a mutated header may name a stratum of another property (other component / kind): not this check's domain
    bool ok = false;
    for (int a : allowed) ok = ok || a == cfg.stratum;
    if (!ok) return 0;
  }
  CaseCtx c;
  begin_case(c, data, size);
  run_case(data + 2, size - 2, c);
  end_case(c);
  if (c.reportable(cfg.prop)) {
    // the semantic oracle failed: save the input as a falsified case and stop this process
    if (!out_dir.empty()) {
      char name[64];
      snprintf(name, sizeof name, "/falsified-%016llx.case", (unsigned long long)fnv(data, size));
      write_file(out_dir + name, data, size);
    }
    _exit(71);
  }
  if (c.tainted) _exit(77);  // heap no longer trusted: restart (libFuzzer keeps the corpus on disk)
  return 0;
}
