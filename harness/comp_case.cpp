// Component family: C17 (VByte, LogSequence, DAC_VLS), C18 (Huffman / Hu-Tucker code tables, StatCoder),
// C19 (bundled libcds bit sequences and wavelet trees), C20 (Re-Pair).  Every case is decoded from bytes;
// the oracle is a plain-definition model written here.  Compiled with -fno-access-control so that the
// protected grammar of RePair and the codeword fields can be read without touching /repo.
#include <algorithm>
#include <cstring>
#include <functional>
#include <map>
#include <memory>
#include <set>
#include <sstream>
#include <vector>

#include "common.h"

#include <BitSequence.h>
#include <BitSequenceBuilder.h>
#include <BitSequenceDArray.h>
#include <BitSequenceRG.h>
#include <BitSequenceRRR.h>
#include <BitSequenceSDArray.h>
#include <Mapper.h>
#include <MapperNone.h>
#include <Sequence.h>
#include <SequenceBuilder.h>
#include <SequenceBuilderWaveletTree.h>
#include <SequenceBuilderWaveletTreeNoptrs.h>
#include <WaveletTree.h>
#include <WaveletTreeNoptrs.h>
#include <wt_coder_huff.h>

#include "HuTucker/HuTucker.h"
#include "Huffman/Huffman.h"
#include "RePair/RePair.h"
#include "RePair/Coder/hash.h"
#include "RePair/Coder/records.h"
#include "utils/Coder/StatCoder.h"
#include "utils/DAC_VLS.h"
#include "utils/LogSequence.h"
#include "utils/Utils.h"
#include "utils/VByte.h"

extern "C" int libcsd_verif_memalloc = 32768;

using namespace cds_static;

namespace vh {

const char *family_name() { return "comp"; }

enum Comp { CP_VBYTE, CP_LOGSEQ, CP_DACVLS, CP_HUFF, CP_HUTUCKER, CP_CODER, CP_BITSEQ, CP_WT, CP_REPAIR, CP_COUNT };
static const char *comp_names[CP_COUNT] = {"VByte", "LogSequence", "DAC_VLS", "HuffmanTable", "HuTuckerTable", "StatCoder", "BitSequence", "WaveletTree", "RePair"};

static bool dead = false;
static bool lib(const char *prop, const std::function<void()> &f) {
  if (dead) return false;
  bool threw = false;
  std::string what;
  bool ok = guarded([&] {
    try { f(); } catch (const char *m) { threw = true; what = m; } catch (...) { threw = true; }
  });
  if (threw) { cur->event(prop, "exception", "C++ exception escaped from " + cur->op + (what.empty() ? "" : ": " + what)); return false; }
  if (!ok) {
    dead = true;
    if (!cur->slow) cur->event(prop, "crash", "fatal signal inside " + cur->op);
    cur->slow = false;
    return false;
  }
  return true;
}
// sanitizer reports are C07 events in common.cpp; for the component properties memory errors inside the
// component under test falsify the property itself ("round-trip", "agree with plain definition")
static void promote_sanitizer_events(const char *prop) {
  std::vector<Event> extra;
  for (auto &e : cur->events)
    if (e.prop == "C07" && (e.clause.compare(0, 5, "asan:") == 0 || e.clause == "ubsan" || e.clause.compare(0, 7, "signal:") == 0)) {
      Event c = e;
      c.prop = prop;
      c.known = false;
      c.finding_id.clear();
      for (auto &f : cfg.findings)
        if (finding_matches(f, c.prop, c.kind, c.state, c.op, c.clause, cur->feats, c.sig, false)) { c.known = true; c.finding_id = f.id; cur->known_hits[f.id]++; break; }
      extra.push_back(c);
    }
  for (auto &e : extra) cur->events.push_back(e);
}

// ------------------------------------------------------------------ C17: VByte
static unsigned vb_len(uint32_t v) { unsigned n = 1; while (v > 127) { v >>= 7; n++; } return n; }

static void case_vbyte(Src &s) {
  cur->set_op("vbyte");
  std::vector<uint32_t> vals;
  size_t n = 64 + s.below(400);
  for (size_t i = 0; i < n; i++) {
    uint32_t v;
    switch (s.pick({60, 50, 40, 40, 40, 26})) {
      case 0: v = s.byte(); break;
      case 1: v = s.u16(); break;
      case 2: v = s.u32(); break;
      case 3: { unsigned k = 1 + s.below(32); v = k == 32 ? 0xFFFFFFFFu : (1u << k); v += (int)s.below(3) - 1; break; }  // 2^k-1, 2^k, 2^k+1
      case 4: { unsigned k = 1 + s.below(4); v = (1u << (7 * k)) + (int)s.below(3) - 1; break; }                          // 2^(7k) boundaries
      default: v = 0xFFFFFFFFu - s.below(4); break;
    }
    vals.push_back(v);
  }
  bool big = false;
  for (uint32_t v : vals) {
    if (v >= 128) big = true;
    for (int variant = 0; variant < 2; variant++) {
      unsigned want = vb_len(v);
      uchar *buf = new uchar[want];  // exactly as many bytes as the value needs: ASan sees any extra write
      uint n1 = 0, n2 = 0, back = ~v;
      bool ok = lib("C17", [&] {
        n1 = variant ? encodeVB2(v, buf) : VByte::encode(v, buf);
        n2 = variant ? decodeVB2(&back, buf) : VByte::decode(&back, buf);
      });
      delete[] buf;
      if (!ok) return;
      const char *nm = variant ? "encodeVB2/decodeVB2" : "VByte::encode/decode";
      if (back != v) cur->event("C17", "vbyte-roundtrip", std::string(nm) + ": " + std::to_string(v) + " decodes to " + std::to_string(back));
      if (n1 != n2) cur->event("C17", "vbyte-length", std::string(nm) + ": " + std::to_string(v) + " encoded in " + std::to_string(n1) + " bytes, decoder consumed " + std::to_string(n2));
      if (n1 != want) cur->event("C17", "vbyte-length", std::string(nm) + ": " + std::to_string(v) + " encoded in " + std::to_string(n1) + " bytes, expected " + std::to_string(want));
    }
  }
  cur->counters["vbyte_values"] += (int)vals.size();
  cur->nontrivial = big;
  if (big) cur->labels.insert("vbyte_ge128");
}

// exhaustive shard of the 2^32 values (thorough tier, -O2 plain build)
static void case_vbyte_exhaustive(uint32_t shard, uint32_t nshards) {
  cur->set_op("vbyte_exhaustive");
  uint64_t per = (1ull << 32) / nshards, lo = (uint64_t)shard * per, hi = shard + 1 == nshards ? (1ull << 32) : lo + per;
  uchar buf[8];
  uint64_t bad = 0;
  for (uint64_t x = lo; x < hi; x++) {
    uint32_t v = (uint32_t)x, back;
    uint n1 = VByte::encode(v, buf), n2 = VByte::decode(&back, buf);
    uint m1 = encodeVB2(v, buf), back2, m2 = decodeVB2(&back2, buf);
    if (back != v || n1 != n2 || n1 != vb_len(v) || back2 != v || m1 != m2) {
      if (bad++ < 3) cur->event("C17", "vbyte-roundtrip", "exhaustive: value " + std::to_string(v) + " does not round-trip");
    }
  }
  cur->counters["vbyte_exhaustive_values"] += (int)std::min<uint64_t>(hi - lo, 0x7fffffff);
  cur->nontrivial = true;
  cur->labels.insert("vbyte_exhaustive_shard");
}

// ------------------------------------------------------------------ C17: LogSequence
static void case_logseq(Src &s) {
  cur->set_op("logseq");
  static const unsigned widths[] = {1, 2, 3, 5, 7, 8, 13, 16, 17, 31, 32, 33, 48, 63, 64, 11, 27, 50};
  unsigned w = s.pick({200, 56}) == 0 ? widths[s.below(18)] : 1 + s.below(64);
  size_t len = 1 + s.below(300);
  uint64_t maxv = w == 64 ? ~0ull : ((1ull << w) - 1);
  cur->feats.insert("width" + std::to_string(w));
  auto value = [&]() -> uint64_t {
    switch (s.pick({80, 60, 60, 56})) {
      case 0: return 0;
      case 1: return maxv;
      case 2: { uint64_t v = ((uint64_t)s.u32() << 32) | s.u32(); return v & maxv; }
      default: return (uint64_t)s.byte() & maxv;
    }
  };
  std::vector<uint64_t> model(len, 0);
  std::unique_ptr<LogSequence> ls;
  bool from_vector = s.byte() & 1;
  if (from_vector) {
    std::vector<size_t> v(len);
    for (size_t i = 0; i < len; i++) { v[i] = value(); model[i] = v[i]; }
    if (!lib("C17", [&] { ls.reset(new LogSequence(&v, w)); })) return;
  } else if (!lib("C17", [&] { ls.reset(new LogSequence(w, len)); })) return;
  bool straddle = false;
  auto compare_all = [&](const char *when) -> bool {
    for (size_t i = 0; i < len; i++) {
      size_t got = 0;
      if (!lib("C17", [&] { got = ls->getField(i); })) return false;
      if (got != model[i]) {
        cur->event("C17", "logseq-field", std::string(when) + ": width " + std::to_string(w) + " length " + std::to_string(len) + " position " + std::to_string(i) + " holds " + std::to_string(got) + " expected " + std::to_string(model[i]));
        return false;
      }
    }
    return true;
  };
  if (!compare_all("after construction")) return;
  size_t ops = 1 + s.below(60);
  for (size_t k = 0; k < ops; k++) {
    size_t pos = s.below((uint32_t)len);
    uint64_t v = value();
    if ((pos * w) / 64 != (pos * w + w - 1) / 64 && w >= 2) straddle = true;
    if (!lib("C17", [&] { ls->setField(pos, v); })) return;
    model[pos] = v;
    if (!compare_all("after setField")) return;
  }
  size_t ne = 0;
  lib("C17", [&] { ne = ls->getNumberOfElements(); });
  if (ne != len) cur->event("C17", "logseq-count", "getNumberOfElements() = " + std::to_string(ne) + " expected " + std::to_string(len));
  // save / load
  std::string img;
  if (!lib("C17", [&] { std::ostringstream os(std::ios::binary); ls->save(os); img = os.str(); })) return;
  std::unique_ptr<LogSequence> ld;
  long long pos_after = -1;
  if (!lib("C17", [&] { std::istringstream is(img + "TAIL", std::ios::binary); ld.reset(new LogSequence(is)); pos_after = (long long)is.tellg(); })) return;
  if (pos_after != (long long)img.size()) cur->event("C17", "logseq-load-size", "loader consumed " + std::to_string(pos_after) + " of " + std::to_string(img.size()) + " bytes");
  ls = std::move(ld);
  compare_all("after save/load");
  cur->nontrivial = straddle;
  if (straddle) cur->labels.insert("logseq_straddle");
  if (w == 64) cur->labels.insert("logseq_w64");
  if (w == 1) cur->labels.insert("logseq_w1");
}

// ------------------------------------------------------------------ C17: DAC_VLS
static void case_dacvls(Src &s) {
  cur->set_op("dacvls");
  size_t nseq = 1 + s.below(200);
  unsigned w = 1 + s.below(20);
  uint32_t maxsym = (w >= 31 ? 0x7fffffffu : (1u << w)) - 1;
  size_t maxlen = 1 + s.pick({60, 60, 60, 40, 36}) * 3 + s.below(3);
  int shape = s.pick({120, 40, 40, 56});  // 0 mixed, 1 all length 1, 2 all maximal, 3 last is length 1 / max first
  std::vector<std::vector<uint32_t>> seqs(nseq);
  size_t longest = 0;
  for (size_t i = 0; i < nseq; i++) {
    size_t L = shape == 1 ? 1 : shape == 2 ? maxlen : 1 + s.below((uint32_t)maxlen);
    if (shape == 3 && i + 1 == nseq) L = 1;
    if (shape == 3 && i == 0) L = maxlen;
    for (size_t k = 0; k < L; k++) {
      uint32_t v = s.pick({40, 40, 176}) == 0 ? 0 : (s.byte() & 1 ? maxsym : s.u32() & maxsym);
      seqs[i].push_back(v);
    }
    longest = std::max(longest, L);
  }
  // the callers' format: symbols >= 0, then -(i) after the i-th sequence; length passed = array length - 1
  std::vector<int> list;
  for (size_t i = 0; i < nseq; i++) { for (uint32_t v : seqs[i]) list.push_back((int)v); list.push_back(-(int)(i + 1)); }
  std::unique_ptr<DAC_VLS> dac;
  if (!lib("C17", [&] { dac.reset(new DAC_VLS(list.data(), (uint)list.size() - 1, w, (uint)longest)); })) return;
  auto check_all = [&](DAC_VLS *d, const char *when) {
    uint ll = 0;
    if (!lib("C17", [&] { ll = d->getListLength(); })) return;
    if (ll != nseq) cur->event("C17", "dac-list-length", std::string(when) + ": getListLength() = " + std::to_string(ll) + " for " + std::to_string(nseq) + " sequences");
    for (size_t i = 0; i < nseq; i++) {
      uint *out = nullptr;
      uint L = 0;
      if (!lib("C17", [&] { L = d->access((uint)i + 1, &out); })) return;
      bool ok = L == seqs[i].size();
      for (size_t k = 0; ok && k < L; k++) ok = out[k] == seqs[i][k];
      delete[] out;
      if (!ok) { cur->event("C17", "dac-access", std::string(when) + ": access(" + std::to_string(i + 1) + ") returns " + std::to_string(L) + " symbols, stored " + std::to_string(seqs[i].size()) + " (" + std::to_string(nseq) + " sequences, longest " + std::to_string(longest) + ", width " + std::to_string(w) + ")"); return; }
      // the chained accessor used by the dictionaries
      std::vector<uint32_t> got;
      uint pos = (uint)i + 1, l = 0;
      bool okc = lib("C17", [&] { while (pos != (uint)-1 && got.size() <= longest + 1) { got.push_back(d->access_next(l, &pos)); l++; } });
      if (!okc) return;
      if (got != seqs[i]) { cur->event("C17", "dac-access-next", std::string(when) + ": access_next chain of " + std::to_string(i + 1) + " yields " + std::to_string(got.size()) + " symbols, stored " + std::to_string(seqs[i].size())); return; }
    }
  };
  check_all(dac.get(), "built");
  std::string img;
  if (dead || !lib("C17", [&] { std::ostringstream os(std::ios::binary); dac->save(os); img = os.str(); })) return;
  DAC_VLS *ld = nullptr;
  long long pos_after = -1;
  if (!lib("C17", [&] { std::istringstream is(img + "TAIL", std::ios::binary); ld = DAC_VLS::load(is); pos_after = (long long)is.tellg(); })) return;
  if (pos_after != (long long)img.size()) cur->event("C17", "dac-load-size", "loader consumed " + std::to_string(pos_after) + " of " + std::to_string(img.size()) + " bytes");
  if (ld) { check_all(ld, "loaded"); if (!dead) lib("C17", [&] { delete ld; }); }
  cur->nontrivial = longest >= 2 && nseq >= 2;
  if (shape == 1) cur->labels.insert("dac_all_len1");
  if (seqs.back().size() == 1) cur->labels.insert("dac_last_len1");
  if (seqs.back().size() == longest) cur->labels.insert("dac_last_is_longest");
}

// ------------------------------------------------------------------ C18: code tables
static std::vector<uint> gen_freqs(Src &s, std::string &profile) {
  std::vector<uint> f(256, 1);
  int p = s.pick({40, 40, 40, 40, 40, 56});
  XorShift x(s.u32() + 99);
  switch (p) {
    case 0: profile = "uniform"; { uint v = 1 + s.below(1000); for (auto &e : f) e = v; } break;
    case 1: profile = "one_dominant"; f[2 + s.below(253)] = 1000 + s.u16() * 50; break;
    case 2: profile = "two_level"; for (int i = 0; i < 256; i++) f[i] = (x.below(4) == 0) ? 500 + x.below(5000) : 1; break;
    case 3: profile = "geometric"; { double w = 1 + s.below(200000); int start = s.below(200); for (int i = 0; i < 256 && w >= 1; i++) { f[(start + i * 7) % 256] += (uint)w; w *= 0.55 + s.below(4) * 0.1; } } break;
    case 4: profile = "fibonacci"; {
      uint64_t a = 1, b = 1; int k = 20 + s.below(13); int start = s.below(256);
      if (k == 32) {
        // the deepest trees the 32-bit Codeword can hold: 256-kk symbols of weight 1 below kk symbols of weight
        // (256-kk)*{1,2,3,5,...}; kk = 24 gives 32-bit codewords for the light symbols (total 45.6e6), 23 and 22
        // give 31 and 30 bits.  Deeper trees are F23's domain and are not generated.
        profile = "fibonacci_32bit";
        int kk = 22 + start % 3;
        uint64_t m = 256 - kk, x1 = 1, x2 = 2;
        for (int i = 0; i < kk; i++) { f[256 - kk + i] = (uint)(m * x1); uint64_t c = x1 + x2; x1 = x2; x2 = c; }
        return f;
      }
      for (int i = 0; i < k; i++) { f[(start + i) % 256] = (uint)a; uint64_t c = a + b; a = b; b = c; }
    } break;
    default: profile = "random"; for (auto &e : f) e = 1 + (s.exhausted() ? x.below(3000) : s.u16()); break;
  }
  // zeros replaced by ones as the dictionaries do; total bounded so that no codeword can exceed 32 bits
  uint64_t tot = 0;
  for (auto &e : f) { if (e == 0) e = 1; tot += e; }
  if (tot >= 5000000) { for (auto &e : f) e = 1 + e / (uint)(tot / 2500000 + 1); }
  return f;
}

static void check_table(const char *what, Codeword *cw, const std::vector<uint> &f, bool alphabetic, const std::string &profile) {
  // completeness: sum 2^-len == 1 ; prefix-freeness ; (Hu-Tucker) order
  unsigned maxbits = 0;
  for (int i = 0; i < 256; i++) maxbits = std::max(maxbits, cw[i].bits);
  cur->counters["max_code_bits"] = std::max(cur->counters["max_code_bits"], (int)maxbits);
  if (maxbits > 32) { cur->labels.insert("code_gt32_discarded"); cur->conclusive = false; cur->inconclusive_reason = "codeword>32bits"; return; }
  if (maxbits > 16) cur->labels.insert("code_gt16");
  for (int i = 0; i < 256; i++)
    if (cw[i].bits == 0) { cur->event("C18", "zero-length-code", std::string(what) + " [" + profile + "]: symbol " + std::to_string(i) + " has a 0-bit codeword"); return; }
  unsigned __int128 kraft = 0;
  for (int i = 0; i < 256; i++) kraft += (unsigned __int128)1 << (64 - cw[i].bits);
  if (kraft != ((unsigned __int128)1 << 64)) cur->event("C18", "not-complete", std::string(what) + " [" + profile + "]: Kraft sum is not 1 (max length " + std::to_string(maxbits) + ")");
  std::vector<std::pair<uint64_t, int>> left;  // left-aligned codewords
  for (int i = 0; i < 256; i++) left.push_back({(uint64_t)cw[i].codeword << (64 - cw[i].bits), i});
  if (alphabetic) {
    for (int i = 1; i < 256; i++)
      if (!(left[i - 1].first < left[i].first)) { cur->event("C18", "order", std::string(what) + " [" + profile + "]: codeword of symbol " + std::to_string(i - 1) + " is not smaller than that of symbol " + std::to_string(i)); break; }
  }
  std::sort(left.begin(), left.end());
  for (int i = 1; i < 256; i++) {
    int a = left[i - 1].second, b = left[i].second;
    unsigned la = cw[a].bits;
    // a is a prefix of b iff their first la bits agree
    if (la <= cw[b].bits && (left[i - 1].first >> (64 - la)) == (left[i].first >> (64 - la))) { cur->event("C18", "not-prefix-free", std::string(what) + " [" + profile + "]: codeword of symbol " + std::to_string(a) + " prefixes that of symbol " + std::to_string(b)); break; }
  }
  (void)f;
}

static void case_codes(Src &s, bool hutucker, bool coder) {
  cur->set_op(hutucker ? "hutucker_table" : "huffman_table");
  std::string profile;
  std::vector<uint> f = gen_freqs(s, profile);
  cur->labels.insert("freq:" + profile);
  Codeword *cw = nullptr;
  std::unique_ptr<Huffman> hf;
  std::unique_ptr<HuTucker> ht;
  std::vector<uint> fcopy = f;
  if (!lib("C18", [&] {
        if (hutucker) { ht.reset(new HuTucker(fcopy.data())); cw = ht->obtainCodewords(); }
        else { hf.reset(new Huffman(fcopy.data())); cw = hf->obtainCodewords(); }
      }) || !cw) return;
  check_table(hutucker ? "HuTucker" : "Huffman", cw, f, hutucker, profile);
  if (coder && cur->conclusive) {
    // StatCoder against an own bit-level coder and an own tree decoder
    cur->set_op("statcoder");
    size_t nstr = 1 + s.below(12);
    bool ends_on_byte = false, ends_one_past = false;
    for (size_t k = 0; k < nstr; k++) {
      size_t L = 1 + s.below(40);
      std::string str;
      for (size_t i = 0; i < L; i++) str += (char)(2 + s.below(253));
      std::string in = str + std::string(1, '\0');
      // reference encoding
      std::vector<uint8_t> ref;
      unsigned nbits = 0;
      for (unsigned char ch : in) {
        for (int b = (int)cw[ch].bits - 1; b >= 0; b--) {
          if (nbits % 8 == 0) ref.push_back(0);
          if ((cw[ch].codeword >> b) & 1) ref.back() |= (uint8_t)(0x80 >> (nbits % 8));
          nbits++;
        }
      }
      if (nbits % 8 == 0) ends_on_byte = true;
      if (nbits % 8 == 1) ends_one_past = true;
      uint encLen = 0, offset = 0;
      uchar *enc = nullptr;
      std::vector<uchar> buf(in.begin(), in.end());
      if (!lib("C18", [&] { StatCoder sc(cw); enc = sc.encodeString(buf.data(), (uint)in.size(), &encLen, &offset); })) break;
      if (encLen != ref.size() || memcmp(enc, ref.data(), ref.size()) != 0 || offset != nbits % 8)
        cur->event("C18", "encode", "StatCoder::encodeString of " + hexs(str) + " [" + profile + "] differs from the bit concatenation of the table's codewords (" + std::to_string(encLen) + " vs " + std::to_string(ref.size()) + " bytes, offset " + std::to_string(offset) + " vs " + std::to_string(nbits % 8) + ")");
      else {
        // decodable: walk the bits with the table
        std::map<std::pair<unsigned, uint32_t>, int> inv;
        for (int i = 0; i < 256; i++) inv[{cw[i].bits, cw[i].codeword}] = i;
        std::string back;
        uint32_t acc = 0;
        unsigned len = 0;
        for (unsigned b = 0; b < nbits; b++) {
          acc = (acc << 1) | ((enc[b / 8] >> (7 - b % 8)) & 1);
          len++;
          auto it = inv.find({len, acc});
          if (it != inv.end()) { back += (char)it->second; acc = 0; len = 0; }
          if (len > 32) break;
        }
        if (back != in) cur->event("C18", "decode", "bit-level decoding of the coded string with the same table does not give back " + hexs(str));
      }
      delete[] enc;
    }
    if (ends_on_byte) cur->labels.insert("coded_ends_on_byte");
    if (ends_one_past) cur->labels.insert("coded_ends_one_past_byte");
  }
  cur->nontrivial = cur->conclusive && (profile != "uniform");
  lib("C18", [&] { delete[] cw; });
}

// ------------------------------------------------------------------ C19: libcds
static std::vector<bool> gen_bits(Src &s, std::string &shape) {
  static const size_t lens[] = {1, 2, 14, 15, 16, 30, 31, 32, 33, 63, 64, 65, 127, 128, 129, 255, 256, 257, 480, 512, 640, 959, 960, 961, 1024, 1920, 2048, 3000};
  size_t len = s.pick({150, 106}) == 0 ? lens[s.below(28)] : 1 + s.below(3000);
  std::vector<bool> b(len, false);
  XorShift x(s.u32() + 5);
  switch (s.pick({20, 20, 20, 30, 40, 60, 66})) {
    case 0: shape = "all0"; break;
    case 1: shape = "all1"; b.assign(len, true); break;
    case 2: shape = "single1"; b[s.below((uint32_t)len)] = true; break;
    case 3: shape = "alternating"; for (size_t i = 0; i < len; i++) b[i] = i & 1; break;
    case 4: shape = "runs"; { bool v = s.byte() & 1; size_t i = 0; while (i < len) { size_t r = 1 + x.below(90); for (size_t k = 0; k < r && i < len; k++, i++) b[i] = v; v = !v; } } break;
    case 5: shape = "sparse"; { uint32_t p = 1 + s.below(60); for (size_t i = 0; i < len; i++) b[i] = x.below(1000) < p; } break;
    default: shape = "random"; { uint32_t p = 100 + s.below(800); for (size_t i = 0; i < len; i++) b[i] = x.below(1000) < p; } break;
  }
  return b;
}

static void check_bitseq(BitSequence *bs, const std::vector<bool> &b, const std::string &what) {
  size_t len = b.size(), ones = 0;
  std::vector<size_t> r1(len), pos1, pos0;
  for (size_t i = 0; i < len; i++) { if (b[i]) { ones++; pos1.push_back(i); } else pos0.push_back(i); r1[i] = ones; }
  size_t gl = 0, co = 0;
  if (!lib("C19", [&] { gl = bs->getLength(); co = bs->countOnes(); })) return;
  if (gl != len) { cur->event("C19", "bitseq-length", what + ": getLength() = " + std::to_string(gl) + " expected " + std::to_string(len)); return; }
  if (co != ones) cur->event("C19", "bitseq-count", what + ": countOnes() = " + std::to_string(co) + " expected " + std::to_string(ones));
  for (size_t i = 0; i < len; i++) {
    bool a = false;
    size_t k1 = 0, k0 = 0;
    if (!lib("C19", [&] { a = bs->access(i); k1 = bs->rank1(i); k0 = bs->rank0(i); })) return;
    if (a != b[i]) { cur->event("C19", "bitseq-access", what + ": access(" + std::to_string(i) + ") = " + std::to_string(a) + " (length " + std::to_string(len) + ", ones " + std::to_string(ones) + ")"); return; }
    if (k1 != r1[i]) { cur->event("C19", "bitseq-rank1", what + ": rank1(" + std::to_string(i) + ") = " + std::to_string(k1) + " expected " + std::to_string(r1[i]) + " (length " + std::to_string(len) + ")"); return; }
    if (k0 != i + 1 - r1[i]) { cur->event("C19", "bitseq-rank0", what + ": rank0(" + std::to_string(i) + ") = " + std::to_string(k0) + " expected " + std::to_string(i + 1 - r1[i])); return; }
  }
  for (size_t j = 1; j <= pos1.size(); j++) {
    size_t p = 0;
    if (!lib("C19", [&] { p = bs->select1(j); })) return;
    if (p != pos1[j - 1]) { cur->event("C19", "bitseq-select1", what + ": select1(" + std::to_string(j) + ") = " + std::to_string(p) + " expected " + std::to_string(pos1[j - 1]) + " (length " + std::to_string(len) + ", ones " + std::to_string(ones) + ")"); return; }
  }
  for (size_t j = 1; j <= pos0.size(); j++) {
    size_t p = 0;
    if (!lib("C19", [&] { p = bs->select0(j); })) return;
    if (p != pos0[j - 1]) { cur->event("C19", "bitseq-select0", what + ": select0(" + std::to_string(j) + ") = " + std::to_string(p) + " expected " + std::to_string(pos0[j - 1]) + " (length " + std::to_string(len) + ", zeros " + std::to_string(pos0.size()) + ")"); return; }
  }
}

static void case_bitseq(Src &s) {
  int cls = cfg.stratum >= 0 ? (cfg.stratum % 16) % 4 : s.below(4);
  static const char *cn[] = {"BitSequenceRG", "BitSequenceRRR", "BitSequenceSDArray", "BitSequenceDArray"};
  cur->kind = cn[cls];
  cur->set_op("bitseq");
  std::string shape;
  std::vector<bool> b = gen_bits(s, shape);
  size_t len = b.size();
  cur->labels.insert(std::string("bits:") + shape);
  cur->feats.insert(std::string("shape_") + shape);
  std::vector<uint> words(len / 32 + 2, 0);
  for (size_t i = 0; i < len; i++) if (b[i]) words[i / 32] |= 1u << (i % 32);
  static const uint rgf[] = {20, 1, 2, 3, 4, 8, 16, 32};
  static const uint rrs[] = {32, 1, 2, 3, 4, 8, 20, 64, 128};
  uint param = cls == 0 ? rgf[s.below(8)] : cls == 1 ? rrs[s.below(9)] : 0;
  bool from_bitstring = s.byte() & 1;
  std::string what = std::string(cn[cls]) + "(param " + std::to_string(param) + ", " + (from_bitstring ? "BitString" : "uint*") + ", " + shape + ")";
  if (cur->skip("bitseq")) { cur->conclusive = false; cur->inconclusive_reason = "excluded-by-known-finding"; return; }
  BitSequence *bs = nullptr;
  if (!lib("C19", [&] {
        if (from_bitstring) {
          cds_utils::BitString str(words.data(), len);
          bs = cls == 0 ? (BitSequence *)new BitSequenceRG(str, param) : cls == 1 ? (BitSequence *)new BitSequenceRRR(str, param) : cls == 2 ? (BitSequence *)new BitSequenceSDArray(str) : (BitSequence *)new BitSequenceDArray(str);
        } else
          bs = cls == 0 ? (BitSequence *)new BitSequenceRG(words.data(), len, param) : cls == 1 ? (BitSequence *)new BitSequenceRRR(words.data(), len, param) : cls == 2 ? (BitSequence *)new BitSequenceSDArray(words.data(), len) : (BitSequence *)new BitSequenceDArray(words.data(), len);
      }) || !bs) return;
  check_bitseq(bs, b, what);
  if (!dead) {
    std::string img;
    BitSequence *ld = nullptr;
    if (lib("C19", [&] { std::ostringstream os(std::ios::binary); bs->save(os); img = os.str(); }) &&
        lib("C19", [&] { std::istringstream is(img, std::ios::binary); ld = BitSequence::load(is); })) {
      if (!ld) cur->event("C19", "bitseq-load-null", what + ": BitSequence::load returned NULL for a saved image");
      else { check_bitseq(ld, b, what + " after save/load"); if (!dead) lib("C19", [&] { delete ld; }); }
    }
  }
  if (!dead) lib("C19", [&] { delete bs; });
  size_t ones = std::count(b.begin(), b.end(), true);
  cur->nontrivial = len > 32 * std::max<uint>(1, cls == 0 ? param : 1) && ones > 0 && ones < len;
}

static void case_wt(Src &s) {
  int cls = cfg.stratum >= 0 ? (cfg.stratum % 16) % 2 : s.below(2);
  cur->kind = cls ? "WaveletTreeNoptrs" : "WaveletTree";
  cur->set_op("wavelet");
  size_t len = 1 + s.below(s.pick({180, 76}) == 0 ? 200 : 2000);
  static const uint sig[] = {3, 1, 2, 4, 8, 26, 64, 257, 300};
  uint sigma = sig[s.below(9)];
  bool sparse = s.byte() % 4 == 0;   // sparse alphabet: symbols spread over a larger range
  bool use0 = s.byte() & 1;
  XorShift x(s.u32() + 11);
  std::vector<uint> alpha;
  for (uint i = 0; i < sigma; i++) alpha.push_back(sparse ? (use0 ? 0 : 1) + i * 5 : (use0 ? 0 : 1) + i);
  std::vector<uint> seq(len);
  bool skew = s.byte() & 1;
  for (size_t i = 0; i < len; i++) {
    uint k = 0;
    if (skew) { while (k + 1 < sigma && (x.next() & 1)) k++; } else k = x.below(sigma);
    seq[i] = alpha[k];
  }
  bool rrr = s.byte() & 1;
  uint bparam = rrr ? (uint[]){32, 1, 4, 20, 128}[s.below(5)] : (uint[]){20, 1, 2, 4, 32}[s.below(5)];
  std::string what = std::string(cls ? "WaveletTreeNoptrs" : "WaveletTree") + "(" + (rrr ? "RRR " : "RG ") + std::to_string(bparam) + ", length " + std::to_string(len) + ", sigma " + std::to_string(sigma) + (sparse ? " sparse" : "") + (use0 ? " with symbol 0" : "") + ")";
  cur->feats.insert(use0 ? "symbol0" : "nosymbol0");
  {
    std::set<uint> distinct(seq.begin(), seq.end());
    if (distinct.size() == 1) cur->feats.insert("single_symbol");
  }
  if (cur->skip("wavelet")) { cur->conclusive = false; cur->inconclusive_reason = "excluded-by-known-finding"; return; }
  Sequence *wt = nullptr;
  std::vector<uint> copy = seq;
  if (!lib("C19", [&] {
        // built exactly as the dictionaries do (StringDictionaryFMINDEX::build_ssa, XBW::XBW, SSA::SSA)
        Mapper *am = new MapperNone();
        BitSequenceBuilder *bsb = rrr ? (BitSequenceBuilder *)new BitSequenceBuilderRRR(bparam) : (BitSequenceBuilder *)new BitSequenceBuilderRG(bparam);
        if (cls == 0) {
          wt_coder *wc = new wt_coder_huff(copy.data(), len, am);
          SequenceBuilder *ssb = new SequenceBuilderWaveletTree(bsb, am, wc);
          ssb->use();
          wt = ssb->build(copy.data(), len);
          ssb->unuse();
        } else {
          SequenceBuilder *ssb = new SequenceBuilderWaveletTreeNoptrs(bsb, am);
          ssb->use();
          wt = ssb->build(copy.data(), len);
          ssb->unuse();
        }
      }) || !wt) return;
  std::map<uint, std::vector<size_t>> occ;
  for (size_t i = 0; i < len; i++) occ[seq[i]].push_back(i);
  auto check = [&](Sequence *q, const std::string &w2) {
    size_t gl = 0;
    if (!lib("C19", [&] { gl = q->getLength(); })) return;
    if (gl != len) { cur->event("C19", "wt-length", w2 + ": getLength() = " + std::to_string(gl)); return; }
    std::map<uint, size_t> seen;
    // symbols to probe: all present + some absent
    std::vector<uint> probe;
    for (auto &kv : occ) probe.push_back(kv.first);
    // absent symbols inside the range the coder was built for (sparse alphabets); symbols above the
    // largest one are outside the structure's alphabet and not probed
    if (sparse && sigma > 1) probe.push_back(alpha[0] + 1);
    for (size_t i = 0; i < len; i++) {
      uint a = 0, a2 = 0;
      size_t r = 0;
      if (!lib("C19", [&] { a = q->access(i); a2 = q->access(i, r); })) return;
      seen[seq[i]]++;
      if (a != seq[i] || a2 != seq[i]) { cur->event("C19", "wt-access", w2 + ": access(" + std::to_string(i) + ") = " + std::to_string(a) + "/" + std::to_string(a2) + " expected " + std::to_string(seq[i])); return; }
      if (r != seen[seq[i]]) { cur->event("C19", "wt-access-rank", w2 + ": access(" + std::to_string(i) + ", r) gives rank " + std::to_string(r) + " expected " + std::to_string(seen[seq[i]])); return; }
      if (i % 7 == 0 || len <= 300)
        for (uint c : probe) {
          size_t want = 0;
          auto it = occ.find(c);
          if (it == occ.end()) { if (cur->skip("wavelet_rank_absent")) continue; cur->set_op("wavelet_rank_absent"); }
          else cur->set_op("wavelet");
          if (it != occ.end()) want = std::upper_bound(it->second.begin(), it->second.end(), i) - it->second.begin();
          size_t got = 0;
          if (!lib("C19", [&] { got = q->rank(c, i); })) return;
          if (got != want) { cur->event("C19", it == occ.end() ? "wt-rank-absent" : "wt-rank", w2 + ": rank(" + std::to_string(c) + ", " + std::to_string(i) + ") = " + std::to_string(got) + " expected " + std::to_string(want)); return; }
        }
    }
    for (auto &kv : occ)
      for (size_t j = 1; j <= kv.second.size(); j++) {
        size_t p = 0;
        if (!lib("C19", [&] { p = q->select(kv.first, j); })) return;
        if (p != kv.second[j - 1]) { cur->event("C19", "wt-select", w2 + ": select(" + std::to_string(kv.first) + ", " + std::to_string(j) + ") = " + std::to_string(p) + " expected " + std::to_string(kv.second[j - 1])); return; }
      }
  };
  check(wt, what);
  if (!dead) {
    std::string img;
    Sequence *ld = nullptr;
    if (lib("C19", [&] { std::ostringstream os(std::ios::binary); wt->save(os); img = os.str(); }) &&
        lib("C19", [&] { std::istringstream is(img, std::ios::binary); ld = Sequence::load(is); })) {
      if (!ld) cur->event("C19", "wt-load-null", what + ": Sequence::load returned NULL for a saved image");
      else check(ld, what + " after save/load");
    }
  }
  cur->nontrivial = occ.size() >= 3 && skew;
  if (occ.size() == 1) cur->labels.insert("wt_single_symbol");
}

// ------------------------------------------------------------------ C20: Re-Pair
// C20, the compressor's pair table as a state machine: generated insert / delete / lookup histories on
// HashRP (open addressing with deletion marks, as IRePair drives it: a small live set, a long stream of
// brand-new pairs that are inserted and purged again) against a std::map model.  Invariant after every
// step: a lookup must be able to end, i.e. the table keeps at least one empty (-1) cell - checked on the
// table itself, never by waiting - and every stored pair is found at its record, every purged pair is not.
static void case_pairhash(Src &s) {
  cur->set_op("pairhash");
  int bits0 = 3 + s.below(6);                 // initial table of 8..256 cells (IRePair starts with 2^17)
  size_t maxlive = 1 + s.below(24);
  size_t steps = 200 + s.below(60) * 200;     // up to 12 000 operations
  XorShift x(s.u32() + 11);
  Trarray Rec;
  bool ok0 = lib("C20", [&] { Rec = Records::createRecords(factor, 64); });
  if (!ok0) return;
  // own record storage: ids 0..maxlive-1
  Rec.records = (Trecord *)realloc(Rec.records, sizeof(Trecord) * (maxlive + 1));
  Rec.maxsize = (int)maxlive + 1;
  Rec.size = (int)maxlive;
  Thash H;
  if (!lib("C20", [&] { H = HashRP::createHash((1 << bits0) - 1, &Rec); })) return;
  std::map<std::pair<int, int>, int> model;   // pair -> record id
  std::vector<int> free_ids;
  for (size_t i = 0; i < maxlive; i++) free_ids.push_back((int)i);
  long fresh = 300;
  bool bad = false;
  auto virgin = [&]() { for (int k = 0; k <= H.maxpos; k++) if (H.table[k] == -1) return true; return false; };
  for (size_t t = 0; t < steps && !bad; t++) {
    uint32_t r = s.exhausted() ? x.below(100) : s.byte() % 100;
    if ((r < 55 && !free_ids.empty()) || model.empty()) {
      if (free_ids.empty()) continue;
      int id = free_ids.back(); free_ids.pop_back();
      std::pair<int, int> p{(int)(fresh++), 97 + (int)x.below(150)};
      Rec.records[id].pair.left = p.first; Rec.records[id].pair.right = p.second;
      if (!lib("C20", [&] { HashRP::insertHash(&H, id); })) return;
      model[p] = id;
    } else if (r < 95) {
      auto it = model.begin(); std::advance(it, x.below((uint32_t)model.size()));
      int id = it->second;
      if (!lib("C20", [&] { HashRP::deleteHash(&H, id); })) return;
      free_ids.push_back(id);
      model.erase(it);
    }
    if (!virgin()) { cur->event("C20", "pair-table-no-empty-cell", "after " + std::to_string(t + 1) + " operations the pair table (" + std::to_string(H.maxpos + 1) + " cells, " + std::to_string(model.size()) + " live pairs) has no empty cell left: the lookup of a pair that is not stored never ends"); bad = true; break; }
    if (t % 16 == 0 || t + 1 == steps) {
      for (auto &kv : model) {
        Tpair q; q.left = kv.first.first; q.right = kv.first.second;
        int got = -9;
        if (!lib("C20", [&] { got = HashRP::searchHash(H, q); })) return;
        if (got != kv.second) { cur->event("C20", "pair-table-lookup", "stored pair (" + std::to_string(q.left) + "," + std::to_string(q.right) + ") is found at record " + std::to_string(got) + " expected " + std::to_string(kv.second)); bad = true; break; }
      }
      Tpair q; q.left = 1; q.right = 2;
      int got = -9;
      if (!bad && !lib("C20", [&] { got = HashRP::searchHash(H, q); })) return;
      if (!bad && got != -1) { cur->event("C20", "pair-table-lookup", "a pair that was never stored is found at record " + std::to_string(got)); bad = true; }
    }
  }
  lib("C20", [&] { HashRP::destroyHash(&H); });
  free(Rec.records);
  cur->nontrivial = steps >= 400;
  cur->labels.insert("pairhash_history");
  cur->sample = "{\"component\":\"RePair pair table\",\"cells0\":" + std::to_string(1 << bits0) + ",\"max_live\":" + std::to_string(maxlive) + ",\"operations\":" + std::to_string(steps) + "}";
}

static void case_repair(Src &s) {
  if (cfg.stratum >= 0 && cfg.stratum % 16 == 6) { case_pairhash(s); return; }
  cur->set_op("repair");
  int fam = s.pick({90, 26, 30, 30, 30, 30, 20});
  size_t nstr = fam == 1 ? 1 : 1 + s.below(400);
  static const int asz[] = {3, 1, 2, 4, 8, 26, 64, 250};
  int asize = asz[s.below(8)];
  XorShift x(s.u32() + 3);
  auto sym = [&]() -> int { return 1 + (int)(s.exhausted() ? x.below(asize) : s.below(asize)) * (asize > 100 ? 1 : 254 / asize); };
  std::vector<std::vector<int>> strs;
  for (size_t k = 0; k < nstr; k++) {
    std::vector<int> t;
    switch (fam) {
      default: case 0: case 1: { size_t L = 1 + s.below(30); for (size_t i = 0; i < L; i++) t.push_back(sym()); break; }
      case 2: { int a = sym(), b = sym(); size_t r = 1 + s.below(40); for (size_t i = 0; i < r; i++) { t.push_back(a); t.push_back(b); } break; }   // abab...
      case 3: { int a = sym(); size_t r = 1 + s.below(60); for (size_t i = 0; i < r; i++) t.push_back(a); break; }                                    // aaaa... overlapping pairs
      case 4: { std::vector<int> u; size_t ul = 2 + s.below(3); for (size_t i = 0; i < ul; i++) u.push_back(sym()); size_t depth = 1 + s.below(9); t = u; for (size_t d = 0; d < depth && t.size() < 1500; d++) { std::vector<int> t2 = t; t2.insert(t2.end(), t.begin(), t.end()); t = t2; } break; }  // deep nesting
      case 5: { if (k == 0 || strs.empty()) { size_t L = 10 + s.below(60); for (size_t i = 0; i < L; i++) t.push_back(sym()); } else { t = strs[0]; t[s.below((uint32_t)t.size())] = sym(); } break; }  // near-identical
      case 6: { size_t L = 1 + s.below(12); for (size_t i = 0; i < L; i++) t.push_back(1 + (int)((k * 31 + i * 7) % 250)); break; }                      // (almost) no repeated pair
    }
    if (t.empty()) t.push_back(1);
    strs.push_back(t);
  }
  bool drop_last0 = s.byte() % 5 == 0;   // the HASHRPF shape
  std::vector<int> input;
  for (auto &t : strs) { input.insert(input.end(), t.begin(), t.end()); input.push_back(0); }
  if (drop_last0) input.pop_back();
  uchar maxchar = 0;
  for (int v : input) if (v > maxchar) maxchar = (uchar)v;
  maxchar = s.byte() & 1 ? (uchar)255 : (uchar)(maxchar < 255 ? maxchar + 1 : 255);
  std::vector<int> work = input;
  work.push_back(0); work.push_back(0);  // slack: callers allocate more than they use
  std::unique_ptr<RePair> rp;
  if (!lib("C20", [&] { rp.reset(new RePair(work.data(), (uint)input.size(), maxchar)); })) return;
  uint64_t terminals = rp->terminals, rules = rp->rules;
  unsigned nbits = rp->getBits();
  // expansions of every rule, bottom up through the library's own grammar array
  auto expand = [&](RePair *r, uint64_t sym0, std::vector<int> &out, int depth, auto &&self) -> bool {
    if (depth > 4000 || out.size() > input.size() + 8) return false;
    if (sym0 < r->terminals) { out.push_back((int)sym0); return true; }
    uint64_t rule = sym0 - r->terminals;
    if (rule >= r->rules) return false;
    uint64_t l = r->G->getField(2 * rule), rr = r->G->getField(2 * rule + 1);
    return self(r, l, out, depth + 1, self) && self(r, rr, out, depth + 1, self);
  };
  std::vector<int> rebuilt;
  bool ok = true, nested = false;
  lib("C20", [&] {
    for (uint64_t q = 0; q < rules && ok; q++) {
      uint64_t l = rp->G->getField(2 * q), r2 = rp->G->getField(2 * q + 1);
      if (l == 0 || r2 == 0) { cur->event("C20", "terminator-in-rule", "rule " + std::to_string(q) + " = (" + std::to_string(l) + "," + std::to_string(r2) + ") contains the terminator 0"); ok = false; }
      if (l >= terminals || r2 >= terminals) nested = true;
      if (l >= terminals + rules || r2 >= terminals + rules) { cur->event("C20", "symbol-out-of-range", "rule " + std::to_string(q) + " refers to symbol " + std::to_string(std::max(l, r2)) + " >= terminals+rules"); ok = false; }
    }
    // walk the compacted sequence exactly as the constructors do
    size_t io = 0, n = input.size();
    size_t steps = 0;
    while (io < n && ok && steps++ < 4 * n + 16) {
      int v = work[io];
      if (v >= 0) {
        if ((uint64_t)v >= terminals + rules) { cur->event("C20", "symbol-out-of-range", "sequence symbol " + std::to_string(v) + " >= terminals+rules = " + std::to_string(terminals + rules)); ok = false; break; }
        if (nbits < 64 && ((uint64_t)v >> nbits) != 0) { cur->event("C20", "bits-too-small", "symbol " + std::to_string(v) + " does not fit the " + std::to_string(nbits) + " bits reported by getBits()"); ok = false; break; }
        if (!expand(rp.get(), (uint64_t)v, rebuilt, 0, expand)) { cur->event("C20", "expansion-runaway", "expanding symbol " + std::to_string(v) + " does not terminate within the input length"); ok = false; break; }
        io++;
      } else io = (size_t)(-(v + 1));
    }
  });
  if (dead) return;
  if (ok && rebuilt != input) {
    size_t at = 0;
    while (at < rebuilt.size() && at < input.size() && rebuilt[at] == input[at]) at++;
    cur->event("C20", "lossy", "expansion of the compacted sequence differs from the input at symbol " + std::to_string(at) + " (lengths " + std::to_string(rebuilt.size()) + "/" + std::to_string(input.size()) + ", " + std::to_string(rules) + " rules)");
  }
  // each rule's expansion must not contain 0 (covered by the rule check when nested rules are sound) and expandRule agrees
  if (ok && rules) {
    lib("C20", [&] {
      for (uint64_t q = 0; q < rules && q < 300; q++) {
        std::vector<int> e;
        if (!expand(rp.get(), terminals + q, e, 0, expand)) break;
        std::vector<uchar> buf(e.size() + 4, 0xEE);
        uint L = rp->expandRule((uint)q, buf.data());
        bool same = L == e.size();
        for (size_t i = 0; same && i < e.size(); i++) same = buf[i] == (uchar)e[i];
        if (!same) { cur->event("C20", "expandRule", "expandRule(" + std::to_string(q) + ") disagrees with the grammar (" + std::to_string(L) + " vs " + std::to_string(e.size()) + " symbols)"); break; }
        if (std::find(e.begin(), e.end(), 0) != e.end()) { cur->event("C20", "terminator-in-rule", "expansion of rule " + std::to_string(q) + " contains the terminator 0"); break; }
      }
    });
  }
  // grammar save / load
  if (ok && !dead) {
    std::string img;
    RePair *ld = nullptr;
    long long pos_after = -1;
    if (lib("C20", [&] { std::ostringstream os(std::ios::binary); rp->save(os); img = os.str(); }) &&
        lib("C20", [&] { std::istringstream is(img + "TAIL", std::ios::binary); ld = RePair::loadNoSeq(is); pos_after = (long long)is.tellg(); }) && ld) {
      if (pos_after != (long long)img.size()) cur->event("C20", "load-size", "loadNoSeq consumed " + std::to_string(pos_after) + " of " + std::to_string(img.size()) + " bytes");
      if (ld->terminals != terminals || ld->rules != rules || ld->maxchar != rp->maxchar) cur->event("C20", "load-header", "terminals/rules/maxchar differ after save/load");
      else
        lib("C20", [&] {
          for (uint64_t q = 0; q < rules; q++)
            if (ld->G->getField(2 * q) != rp->G->getField(2 * q) || ld->G->getField(2 * q + 1) != rp->G->getField(2 * q + 1)) { cur->event("C20", "load-grammar", "rule " + std::to_string(q) + " differs after save/load"); break; }
        });
      if (!dead) lib("C20", [&] { delete ld; });
    }
  }
  cur->counters["rules"] += (int)rules;
  cur->nontrivial = (rules >= 1 && nested) || (rules == 0 && nstr >= 2);
  if (rules == 0) cur->labels.insert("repair_no_rules");
  if (nested) cur->labels.insert("repair_nested_rules");
  if (nstr == 1) cur->labels.insert("repair_single_string");
  if (drop_last0) cur->labels.insert("repair_no_final_terminator");
}

// ------------------------------------------------------------------ entry
int run_case(const uint8_t *data, size_t n, CaseCtx &ctx) {
  Src s(data, n);
  dead = false;
  const std::string &P = cfg.prop;
  int comp;
  // stratum = component * 16 + sub-class
  if (cfg.stratum >= 0) comp = (cfg.stratum / 16) % CP_COUNT;
  else {
    int b = s.byte();
    if (P == "C17") comp = (int[]){CP_VBYTE, CP_LOGSEQ, CP_DACVLS}[b % 3];
    else if (P == "C18") comp = (int[]){CP_HUFF, CP_HUTUCKER, CP_CODER}[b % 3];
    else if (P == "C19") comp = (int[]){CP_BITSEQ, CP_WT}[b % 2];
    else comp = CP_REPAIR;
  }
  ctx.kind = comp_names[comp];
  ctx.state = "-";
  if (cfg.param.compare(0, 17, "vbyte-exhaustive:") == 0) {
    uint32_t shard = 0, nsh = 1;
    sscanf(cfg.param.c_str() + 17, "%u/%u", &shard, &nsh);
    // one shard per case: the case bytes select nothing
    case_vbyte_exhaustive(shard, nsh);
    ctx.hash = fnv_u64(shard, fnv_str("vbx", 1469598103934665603ULL));
    ctx.sample = "{\"component\":\"VByte\",\"exhaustive_shard\":" + std::to_string(shard) + ",\"of\":" + std::to_string(nsh) + "}";
    return 0;
  }
  switch (comp) {
    case CP_VBYTE: case_vbyte(s); break;
    case CP_LOGSEQ: case_logseq(s); break;
    case CP_DACVLS: case_dacvls(s); break;
    case CP_HUFF: case_codes(s, false, false); break;
    case CP_HUTUCKER: case_codes(s, true, false); break;
    case CP_CODER: case_codes(s, s.byte() & 1, true); break;
    case CP_BITSEQ: case_bitseq(s); break;
    case CP_WT: case_wt(s); break;
    case CP_REPAIR: case_repair(s); break;
  }
  promote_sanitizer_events(P.c_str());
  ctx.hash = fnv(data, n, fnv_u64(comp, fnv_str(P, 1469598103934665603ULL)));
  std::string labs;
  for (auto &l : ctx.labels) labs += (labs.empty() ? "" : ",") + l;
  ctx.sample = "{\"component\":\"" + ctx.kind + "\",\"labels\":\"" + jesc(labs) + "\",\"case_bytes\":" + std::to_string(n) + "}";
  if (cfg.trace) real_err("CASE %s\n", ctx.sample.c_str());
  if (ctx.tainted) {
    std::vector<Event> keep;
    for (auto &e : ctx.events)
      if (e.prop == "C07" || e.clause.compare(0, 5, "asan:") == 0 || e.clause == "crash" || e.clause == "ubsan" || e.clause.compare(0, 7, "signal:") == 0) keep.push_back(e);
    ctx.events.swap(keep);
  }
  return 0;
}

}  // namespace vh
