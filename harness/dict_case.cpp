// Dictionary family: C01-C08, C12-C16 (and the dictionary-level parts of C17/C18/C20).
// One case = (kind, parameters, string set S, op bytes); every case is examined on the
// freshly built object, the object loaded through StringDictionary::load and the object
// loaded through the kind's own loader.  The oracle is the reference model S.
#include <malloc.h>

#include <algorithm>
#include <functional>
#include <map>
#include <memory>
#include <set>
#include <sstream>

#include "common.h"
#include "dict_gen.h"
#include "dict_obj.h"

extern "C" int libcsd_verif_memalloc = 32768;

namespace vh {

const char *family_name() { return "dict"; }

static const uint32_t CANARY = 0xDEADBEEF;

struct Obj {
  StringDictionary *d = nullptr;
  int kind = 0;
  size_t n = 0;  // |S|
};

struct Case {
  Params p;
  std::vector<std::string> S;
  GenInfo gi;
  std::vector<uint8_t> opbytes;
  size_t cap = 300;  // members / ids examined per sweep
};

// functional events of C01-C05/C13/C15 raised while another property's check runs a sweep
static std::string attr_override;
static void ev(const char *prop, const char *clause, const std::string &msg) {
  if (!attr_override.empty()) {
    std::string cl = std::string(prop) + ":" + clause;
    cur->event(attr_override.c_str(), cl.c_str(), msg);
  } else
    cur->event(prop, clause, msg);
}

// ------------------------------------------------------------------ guarded library calls
static bool obj_dead = false;  // the object under test died inside a call: leave it alone
static const char *op_owner(const std::string &op) {
  if (op == "locate_member" || op == "extract") return "C01";
  if (op == "locate_absent" || op == "extract_bad") return "C02";
  if (op == "extract_rank" || op == "locate_rank") return "C03";
  if (op == "locate_prefix" || op == "extract_prefix") return "C04";
  if (op == "locate_substr" || op == "extract_substr") return "C05";
  if (op == "extract_table") return "C13";
  if (op == "metadata") return "C15";
  if (op.compare(0, 6, "unsup_") == 0) return "C16";
  if (op == "load_generic" || op == "load_own") return "C06";
  if (op == "save" || op == "resave") return "C08";
  return nullptr;  // build / destroy: C07 only
}
// returns false if the call died (signal) or threw
static bool lib(const std::function<void()> &f) {
  bool threw = false;
  bool ok = guarded([&] {
    try { f(); } catch (...) { threw = true; }
  });
  if (threw) {
    cur->event("C07", "exception", "C++ exception escaped from " + cur->op);
    if (const char *o = op_owner(cur->op)) ev(o, "exception", "C++ exception escaped from " + cur->op);
    return false;
  }
  if (!ok) {
    obj_dead = true;
    if (cur->slow) { cur->slow = false; return false; }
    if (const char *o = op_owner(cur->op)) ev(o, "crash", "fatal signal inside " + cur->op);
    return false;
  }
  return true;
}
static bool skip(const char *op) { return obj_dead || cur->skip(op); }

// ------------------------------------------------------------------ model
static int model_index(const std::vector<std::string> &S, const std::string &q) {  // 0-based or -1
  auto it = std::lower_bound(S.begin(), S.end(), q, ult);
  if (it != S.end() && *it == q) return (int)(it - S.begin());
  return -1;
}
static void model_prefix(const std::vector<std::string> &S, const std::string &p, size_t &lo, size_t &hi) {  // [lo,hi)
  lo = std::lower_bound(S.begin(), S.end(), p, ult) - S.begin();
  hi = lo;
  while (hi < S.size() && S[hi].size() >= p.size() && memcmp(S[hi].data(), p.data(), p.size()) == 0) hi++;
}
static std::vector<size_t> model_substr(const std::vector<std::string> &S, const std::string &p) {  // 0-based indexes
  std::vector<size_t> r;
  for (size_t i = 0; i < S.size(); i++)
    if (S[i].size() >= p.size() && memmem(S[i].data(), S[i].size(), p.data(), p.size())) r.push_back(i);
  return r;
}

// ------------------------------------------------------------------ guarded pattern buffers
struct Pat {
  uchar *buf;
  std::string copy;
  explicit Pat(const std::string &s) : copy(s) {
    buf = new uchar[s.size() + 1];  // exact size: ASan sees any access past the terminator
    memcpy(buf, s.data(), s.size());
    buf[s.size()] = 0;
  }
  void check() {
    if (memcmp(buf, copy.data(), copy.size()) != 0 || buf[copy.size()] != 0)
      cur->event("C14", "pattern-modified", "caller's pattern buffer changed by the call; pattern=" + hexs(copy));
  }
  ~Pat() { delete[] buf; }
};

// ------------------------------------------------------------------ op wrappers
struct ExtR { bool null = true; std::string str; uint32_t len = 0; bool len_mismatch = false; bool ex = false; };
struct IdsR { bool nullit = false; std::vector<size_t> ids; bool runaway = false; bool limits = false; size_t l = 0, r = 0; bool ex = false; };
struct StrsR { bool nullit = false; std::vector<std::string> strs; bool runaway = false, len_mismatch = false, len_unset = false, null_str = false, hasnext_sticky_fail = false; bool ex = false; };

static unsigned long op_locate(Obj &o, const std::string &q, const char *opname, bool *ex = nullptr) {
  if (obj_dead) { if (ex) *ex = true; return 0; }
  cur->set_op(opname);
  Pat p(q);
  unsigned long id = 0;
  if (!lib([&] { id = o.d->locate(p.buf, (uint)q.size()); })) { if (ex) *ex = true; return 0; }
  p.check();
  return id;
}

static ExtR op_extract(Obj &o, size_t id, const char *opname, bool rank = false) {
  ExtR r;
  if (obj_dead) { r.ex = true; return r; }
  cur->set_op(opname);
  uint len = CANARY;
  uchar *e = nullptr;
  size_t sl = 0;
  // strlen under ASan: trips a redzone if the result is not terminated
  if (!lib([&] { e = rank ? o.d->extractRank((uint)id, &len) : o.d->extract(id, &len); if (e) sl = strlen((char *)e); })) { r.ex = true; return r; }
  r.len = len;
  if (e) {
    r.null = false;
    r.str.assign((char *)e, sl);
    r.len_mismatch = (sl != len);
    delete[] e;
  }
  return r;
}

static IdsR drain_ids(Obj &o, IteratorDictID *it) {
  IdsR r;
  if (!it) { r.nullit = true; return r; }
  if (auto *c = dynamic_cast<IteratorDictIDContiguous *>(it)) { r.limits = true; r.l = c->getLeftLimit(); r.r = c->getRightLimit(); }
  size_t bound = o.n + 2;
  while (it->hasNext()) {
    if (r.ids.size() >= bound) { r.runaway = true; break; }
    r.ids.push_back(it->next());
  }
  delete it;
  return r;
}

static IdsR op_locate_ids(Obj &o, const std::string &q, bool substr, const char *opname) {
  IdsR r;
  if (obj_dead) { r.ex = true; r.nullit = true; return r; }
  cur->set_op(opname);
  Pat p(q);
  if (!lib([&] {
        IteratorDictID *it = substr ? o.d->locateSubstr(p.buf, (uint)q.size()) : o.d->locatePrefix(p.buf, (uint)q.size());
        r = drain_ids(o, it);
      })) { r.ex = true; r.ids.clear(); r.nullit = true; return r; }
  p.check();
  return r;
}

static StrsR drain_strs(Obj &o, IteratorDictString *it, size_t limit = (size_t)-1) {
  StrsR r;
  if (!it) { r.nullit = true; return r; }
  size_t bound = o.n + 2;
  while (it->hasNext()) {
    if (r.strs.size() >= bound) { r.runaway = true; break; }
    if (r.strs.size() >= limit) break;  // abandoned half-drained
    uint len = CANARY;
    uchar *s = it->next(&len);
    if (!s) { r.null_str = true; r.strs.push_back("<NULL>"); continue; }
    size_t sl = strlen((char *)s);
    if (len == CANARY) r.len_unset = true;
    else if (sl != len) r.len_mismatch = true;
    r.strs.emplace_back((char *)s, sl);
    delete[] s;
  }
  if (!r.runaway && r.strs.size() < limit) {
    if (it->hasNext()) r.hasnext_sticky_fail = true;  // must stay false when asked again
  }
  delete it;
  return r;
}

// which: 0 prefix, 1 substr, 2 table
static StrsR op_extract_strs(Obj &o, const std::string &q, int which, const char *opname, size_t limit = (size_t)-1) {
  StrsR r;
  if (obj_dead) { r.ex = true; r.nullit = true; return r; }
  cur->set_op(opname);
  Pat p(q);
  if (!lib([&] {
        IteratorDictString *it = which == 2 ? o.d->extractTable()
                                 : which == 1 ? o.d->extractSubstr(p.buf, (uint)q.size())
                                              : o.d->extractPrefix(p.buf, (uint)q.size());
        r = drain_strs(o, it, limit);
      })) { r = StrsR(); r.ex = true; r.nullit = true; return r; }
  p.check();
  return r;
}

// ------------------------------------------------------------------ query derivation
static std::vector<size_t> sample_indexes(const Case &c, size_t n, uint32_t bucket, XorShift &x) {
  std::vector<size_t> v;
  if (n <= c.cap) { for (size_t i = 0; i < n; i++) v.push_back(i); return v; }
  std::set<size_t> s = {0, 1, n - 1, n - 2, n / 2};
  if (bucket >= 2) {
    // bucket boundaries
    for (int k = 0; k < 40; k++) { size_t b = x.below((uint32_t)(n / bucket + 1)) * bucket; for (size_t d = 0; d < 3; d++) if (b + d < n + 1 && b + d >= 1) s.insert(b + d - 1); }
    size_t lastb = (n - 1) / bucket * bucket;
    for (size_t i = lastb; i < n; i++) s.insert(i);
  }
  while (s.size() < c.cap) s.insert(x.below((uint32_t)n));
  v.assign(s.begin(), s.end());
  return v;
}

struct AbsentQ { std::string q; const char *cls; };
static std::vector<AbsentQ> absent_queries(const Case &c, XorShift &x, size_t want) {
  const auto &S = c.S;
  std::vector<AbsentQ> out;
  std::set<uint8_t> used;
  for (auto &s : S) for (unsigned char ch : s) used.insert(ch);
  std::vector<uint8_t> unused;
  for (int ch = 2; ch <= 254; ch++) if (!used.count((uint8_t)ch)) unused.push_back((uint8_t)ch);
  auto add = [&](const std::string &q, const char *cls) {
    if (q.empty()) return;
    for (unsigned char ch : q) if (ch < 2 || ch > 254) return;
    if (model_index(S, q) >= 0) return;
    out.push_back({q, cls});
  };
  size_t n = S.size();
  for (size_t k = 0; k < want; k++) {
    const std::string &m = S[x.below((uint32_t)n)];
    switch (k % 10) {
      case 0: if (m.size() > 1) add(m.substr(0, 1 + x.below((uint32_t)m.size() - 1)), "proper_prefix"); break;
      case 1: { std::string q = m; q += (char)(used.empty() ? 'a' : *std::next(used.begin(), x.below((uint32_t)used.size()))); add(q, "extension"); break; }
      case 2: { std::string q = m; unsigned char &l = (unsigned char &)q[q.size() - 1]; if (l < 254) { l++; add(q, "last_plus1"); } break; }
      case 3: { std::string q = m; unsigned char &l = (unsigned char &)q[q.size() - 1]; if (l > 2) { l--; add(q, "last_minus1"); } break; }
      case 4: if (!unused.empty()) { std::string q = m; q[x.below((uint32_t)q.size())] = (char)unused[x.below((uint32_t)unused.size())]; add(q, "out_of_alphabet"); } break;
      case 5: { std::string q = S[0]; if (q.size() > 1) q = q.substr(0, q.size() - 1); else if ((unsigned char)q[0] > 2) q[0]--; add(q, "below_first"); if (!unused.empty() && unused[0] < (unsigned char)S[0][0]) add(std::string(1, (char)unused[0]), "below_first"); break; }
      case 6: { std::string q = S[n - 1]; q += (char)(used.empty() ? 'a' : *used.rbegin()); add(q, "above_last"); if (!unused.empty() && unused.back() > (unsigned char)S[n - 1][0]) add(std::string(1, (char)unused.back()), "above_last"); break; }
      case 7: { std::string q = m; size_t extra = c.gi.maxlen + 1 - m.size() + x.below(3); for (size_t i = 0; i < extra; i++) q += m[i % m.size()]; add(q, "longer_than_all"); break; }
      case 8: { std::string q = m; if (!unused.empty()) { q += (char)unused[x.below((uint32_t)unused.size())]; add(q, "extension_out_of_alphabet"); } break; }
      case 9: { size_t i = x.below((uint32_t)n); if (i + 1 < n) { std::string q = S[i]; q += (char)2; if (ult(q, S[i + 1])) add(q, "between_neighbours"); else { q = S[i]; q += S[i + 1].substr(std::min(S[i].size(), S[i + 1].size())); } } break; }
    }
  }
  return out;
}

// ------------------------------------------------------------------ sweeps
static void sweep_c01(Obj &o, const Case &c, XorShift &x) {
  const auto &S = c.S;
  size_t n = S.size();
  auto idx = sample_indexes(c, n, has_bucket(o.kind) ? std::max<uint32_t>(2, c.p.bucket) : 0, x);
  // members -> IDs -> members
  std::map<unsigned long, size_t> seen;
  if (!skip("locate_member")) {
    for (size_t i : idx) {
      unsigned long id = op_locate(o, S[i], "locate_member");
      if (id < 1 || id > n) { ev("C01", "locate-member-range", "locate(" + hexs(S[i]) + ") = " + std::to_string(id) + " not in [1," + std::to_string(n) + "]"); continue; }
      auto ins = seen.insert({id, i});
      if (!ins.second) { ev("C01", "not-injective", "members " + hexs(S[ins.first->second]) + " and " + hexs(S[i]) + " both map to ID " + std::to_string(id)); continue; }
      if (skip("extract")) continue;
      ExtR e = op_extract(o, id, "extract");
      if (e.null) ev("C01", "extract-null", "extract(locate(" + hexs(S[i]) + ")=" + std::to_string(id) + ") is NULL");
      else if (e.str != S[i]) ev("C01", "roundtrip-mismatch", "extract(locate(" + hexs(S[i]) + ")=" + std::to_string(id) + ") = " + hexs(e.str));
      else if (e.len_mismatch) ev("C01", "length-mismatch", "extract(" + std::to_string(id) + ") reported length " + std::to_string(e.len) + " strlen " + std::to_string(e.str.size()));
    }
  }
  // IDs -> members -> IDs, and the image of [1,n] is S (bijection)
  if (!skip("extract")) {
    std::set<size_t> hit;
    for (size_t i : idx) {
      size_t id = i + 1;
      ExtR e = op_extract(o, id, "extract");
      if (e.null) { ev("C01", "extract-null", "extract(" + std::to_string(id) + ") is NULL, n=" + std::to_string(n)); continue; }
      if (e.len_mismatch) ev("C01", "length-mismatch", "extract(" + std::to_string(id) + ") reported length " + std::to_string(e.len) + " strlen " + std::to_string(e.str.size()));
      int mi = model_index(S, e.str);
      if (mi < 0) { ev("C01", "extract-not-member", "extract(" + std::to_string(id) + ") = " + hexs(e.str) + " is not in S"); continue; }
      if (!hit.insert(mi).second) { ev("C01", "extract-not-injective", "two IDs extract to " + hexs(e.str)); continue; }
      if (skip("locate_member")) continue;
      unsigned long back = op_locate(o, e.str, "locate_member");
      if (back != id) ev("C01", "locate-extract-mismatch", "locate(extract(" + std::to_string(id) + ")=" + hexs(e.str) + ") = " + std::to_string(back));
    }
    if (n <= c.cap && hit.size() != n && cur->reportable("C01") == 0 && attr_override.empty())
      ev("C01", "not-surjective", "extract over [1,n] reached " + std::to_string(hit.size()) + " of " + std::to_string(n) + " members");
  }
}

static void sweep_c02(Obj &o, const Case &c, XorShift &x) {
  size_t n = c.S.size();
  auto qs = absent_queries(c, x, n <= 8 ? 60 : 200);
  qs.push_back({std::string(), "empty"});   // the empty string is NUL-terminated and never a member
  if (!skip("locate_absent")) {
    for (auto &q : qs) {
      cur->labels.insert(std::string("absent:") + q.cls);
      unsigned long id = op_locate(o, q.q, "locate_absent");
      if (id != 0) ev("C02", (std::string("false-positive:") + q.cls).c_str(), "locate(" + hexs(q.q) + ") = " + std::to_string(id) + " but the string is not a member");
    }
  }
  // members stored next to each other, joined by a byte that occurs in no member (the hash kinds store
  // their strings back to back with a closing symbol = largest byte + 1 between them): s_i + M + s_{i+1},
  // in ID order, with M = largest byte + 1 and, as a control, the largest byte + 2
  if (!skip("locate_absent") && !skip("extract") && n >= 2 && !obj_dead) {
    unsigned maxb = 0;
    for (auto &t : c.S) for (unsigned char ch : t) maxb = std::max<unsigned>(maxb, ch);
    for (int k = 0; k < 6 && !obj_dead; k++) {
      size_t i = 1 + x.below((uint32_t)(n - 1));
      ExtR a = op_extract(o, i, "extract"), b = op_extract(o, i + 1, "extract");
      if (a.null || b.null) break;
      for (unsigned m = maxb + 1; m <= maxb + 2 && m <= 254; m++) {
        std::string q = a.str + std::string(1, (char)m) + b.str;
        if (model_index(c.S, q) >= 0) continue;
        cur->labels.insert("absent:joined_neighbours");
        unsigned long id = op_locate(o, q, "locate_absent");
        if (id != 0) ev("C02", "false-positive:joined_neighbours", "locate(" + hexs(q.substr(0, 80)) + ") = " + std::to_string(id) + " but the string (members " + std::to_string(i) + " and " + std::to_string(i + 1) + " joined by byte " + std::to_string(m) + ") is not a member");
      }
    }
  }
  if (!skip("extract_bad")) {
    size_t bad[] = {0, n + 1, n + 2, 2 * n + 1, (size_t)1 << 31, 0xFFFFFFFFull, (size_t)1 << 32, ((size_t)1 << 32) + 1, (size_t)-1, n + 1 + x.below(1000)};
    for (size_t id : bad) {
      ExtR e = op_extract(o, id, "extract_bad");
      if (!e.null) ev("C02", "bad-id-not-null", "extract(" + std::to_string(id) + ") returned " + hexs(e.str) + " with n=" + std::to_string(n));
      else if (e.len != 0) ev("C02", "bad-id-length", "extract(" + std::to_string(id) + ") returned NULL but length " + std::to_string(e.len));
    }
  }
}

static void sweep_c03(Obj &o, const Case &c, XorShift &x) {
  const auto &S = c.S;
  size_t n = S.size();
  auto idx = sample_indexes(c, n, has_bucket(o.kind) ? std::max<uint32_t>(2, c.p.bucket) : 0, x);
  if (is_ordered(o.kind)) {
    for (size_t i : idx) {
      if (!skip("extract")) {
        ExtR e = op_extract(o, i + 1, "extract");
        if (e.null || e.str != S[i]) ev("C03", "extract-order", "extract(" + std::to_string(i + 1) + ") = " + (e.null ? "NULL" : hexs(e.str)) + " expected the " + std::to_string(i + 1) + "-th smallest " + hexs(S[i]));
      }
      if (!skip("locate_member")) {
        unsigned long id = op_locate(o, S[i], "locate_member");
        if (id != i + 1) ev("C03", "locate-order", "locate(" + hexs(S[i]) + ") = " + std::to_string(id) + " expected rank " + std::to_string(i + 1));
      }
    }
  }
  // rank operations: every kind, conditional on a non-null answer
  size_t answered = 0;
  for (size_t i : idx) {
    if (!skip("extract_rank")) {
      ExtR e = op_extract(o, i + 1, "extract_rank", true);
      if (!e.null) {
        answered++;
        if (e.str != S[i]) ev("C03", "extract-rank", "extractRank(" + std::to_string(i + 1) + ") = " + hexs(e.str) + " expected " + hexs(S[i]));
      }
    }
    if (!skip("locate_rank")) {
      cur->set_op("locate_rank");
      uint id = 0;
      lib([&] { id = o.d->locateRank((uint)(i + 1)); });
      if (id != 0) {
        answered++;
        if (skip("extract")) continue;
        ExtR e = op_extract(o, id, "extract");
        if (e.null || e.str != S[i]) ev("C03", "locate-rank", "extract(locateRank(" + std::to_string(i + 1) + ")=" + std::to_string(id) + ") = " + (e.null ? "NULL" : hexs(e.str)) + " expected " + hexs(S[i]));
      }
    }
  }
  if (answered) cur->labels.insert("rank_answered");
}

// XBW answers prefix / substring queries by walking, for every matching trie node, its whole subtree
// with a quadratic queue.  Performance is no part of any property, so patterns whose enumeration would
// take seconds to minutes on this kind are left out (and counted).
static bool xbw_too_costly(const Obj &o, const Case &c, const std::string &p, bool substr) {
  if (cfg.param == "scale" && o.kind != K_XBW) {
    // scale stage: an enumeration of tens of thousands of members is drained string by string through
    // thousands of short calls (minutes under ASan): patterns with more than 3 000 matches are not issued
    size_t m = 0;
    for (auto &s2 : c.S) {
      if (s2.size() < p.size()) continue;
      if (substr ? memmem(s2.data(), s2.size(), p.data(), p.size()) != nullptr : memcmp(s2.data(), p.data(), p.size()) == 0) m++;
      if (m > 3000) { cur->counters["scale_patterns_skipped_for_cost"]++; return true; }
    }
    return false;
  }
  if (o.kind != K_XBW) return false;
  double cost = 0;
  for (auto &s : c.S) {
    if (s.size() < p.size()) continue;
    if (substr) {
      const char *b = s.data();
      size_t off = 0;
      while (true) {
        const char *f = (const char *)memmem(b + off, s.size() - off, p.data(), p.size());
        if (!f) break;
        off = (f - b) + 1;
        cost += (double)(s.size() - off + 1);
        if (off >= s.size()) break;
      }
    } else if (memcmp(s.data(), p.data(), p.size()) == 0) cost += (double)s.size();
  }
  bool costly = substr ? cost > 20000 : cost > 6000;
  if (costly) cur->counters["xbw_patterns_skipped_for_cost"]++;
  return costly;
}

struct PrefQ { std::string p; const char *cls; };
static std::vector<PrefQ> prefix_patterns(const Case &c, XorShift &x, size_t want) {
  const auto &S = c.S;
  size_t n = S.size();
  std::vector<PrefQ> out;
  // XBW enumerates matches with a quadratic queue (see substr_patterns): few patterns on big sets
  size_t minlen = 1;
  if (c.p.kind == K_XBW && c.gi.total > 1500) want = std::min<size_t>(want, 12);
  if (c.p.kind == K_XBW && c.gi.total > 12000) { want = 4; minlen = 5; }
  auto add = [&](const std::string &q, const char *cls) {
    if (q.size() < minlen) return;
    if (q.empty()) return;
    for (unsigned char ch : q) if (ch < 2 || ch > 254) return;
    out.push_back({q, cls});
  };
  for (size_t k = 0; k < want; k++) {
    const std::string &m = S[x.below((uint32_t)n)];
    switch (k % 9) {
      case 0: add(m.substr(0, 1), "first_byte"); break;
      case 1: add(m.substr(0, 1 + x.below((uint32_t)m.size())), "member_prefix"); break;
      case 2: add(m, "member"); break;
      case 3: { std::string q = m.substr(0, 1 + x.below((uint32_t)m.size())); q += (char)(2 + x.below(253)); add(q, "prefix_plus_byte"); break; }
      case 4: {
        // longer than every member: by one byte, by a few, or by far (beyond any maxLength-sized scratch buffer)
        size_t extra = (k / 9) % 3 == 0 ? 0 : (k / 9) % 3 == 1 ? 1 + x.below(8) : 20 + x.below(200);
        std::string q = m;
        for (size_t i = m.size(); i <= c.gi.maxlen + extra; i++) q += m[i % m.size()];
        add(q, extra ? "much_longer_than_all" : "longer_than_all");
        break;
      }
      case 5: { std::string q = S[0]; if ((unsigned char)q[0] > 2) { q[0]--; add(q.substr(0, 1), "before_all"); } break; }
      case 6: { std::string q = S[n - 1]; if ((unsigned char)q[0] < 254) { q[0]++; add(q.substr(0, 1), "after_all"); } else { q += (char)254; add(q, "after_all"); } break; }
      case 7: {  // long shared prefix (>=128 when the set has one)
        size_t i = x.below((uint32_t)n);
        if (i + 1 < n) { size_t l = 0; while (l < S[i].size() && l < S[i + 1].size() && S[i][l] == S[i + 1][l]) l++; if (l) add(S[i].substr(0, l), "neighbour_lcp"); }
        break;
      }
      case 8: { std::string q = m.substr(0, 1 + x.below((uint32_t)m.size())); unsigned char &l = (unsigned char &)q[q.size() - 1]; if (l < 254) { l++; add(q, "prefix_last_plus1"); } break; }
    }
  }
  return out;
}

static void sweep_c04(Obj &o, const Case &c, XorShift &x) {
  if (!has_prefix(o.kind)) return;
  const auto &S = c.S;
  size_t n = S.size();
  uint32_t b = has_bucket(o.kind) ? std::max<uint32_t>(2, c.p.bucket) : 0;
  auto ps = prefix_patterns(c, x, n <= 8 ? 45 : 120);
  bool multi = false, empty = false;
  for (auto &q : ps) {
    if (xbw_too_costly(o, c, q.p, false)) continue;
    size_t lo, hi;
    model_prefix(S, q.p, lo, hi);
    size_t cnt = hi - lo;
    // "when no member begins with p ... without reading outside the dictionary": C04 owns memory errors of these calls
    asan_also_prop = cnt == 0 ? "C04" : "";
    if (cnt == 0) { empty = true; cur->labels.insert(lo == 0 ? "prefix:none_before" : lo == n ? "prefix:none_after" : "prefix:none_inside"); }
    else if (b) {
      size_t b1 = lo / b, b2 = (hi - 1) / b;
      cur->labels.insert(b2 == b1 ? "prefix:1bucket" : b2 == b1 + 1 ? "prefix:2buckets" : "prefix:3+buckets");
      if (b2 > b1) multi = true;
      if (hi % b == 0 || hi == n) cur->labels.insert("prefix:ends_at_boundary");
      if (cnt == n) cur->labels.insert("prefix:whole_dictionary");
      if (lo % b != 0) cur->labels.insert("prefix:starts_inside_bucket");
    } else if (cnt >= 2) multi = true;
    if (!skip("locate_prefix")) {
      IdsR r = op_locate_ids(o, q.p, false, "locate_prefix");
      std::string ctx = "locatePrefix(" + hexs(q.p) + ") [" + q.cls + "] model range [" + std::to_string(lo + 1) + "," + std::to_string(hi) + "] of n=" + std::to_string(n);
      if (r.runaway) ev("C04", "runaway-id-iterator", ctx + ": iterator yields more than n+2 IDs");
      else if (cnt == 0) {
        if (!r.nullit && !r.ids.empty()) ev("C04", "ids-on-no-match", ctx + ": " + std::to_string(r.ids.size()) + " IDs returned, first " + std::to_string(r.ids[0]));
        if (r.limits && (r.l != 0 || r.r != 0)) ev("C04", "limits-on-no-match", ctx + ": limits " + std::to_string(r.l) + "," + std::to_string(r.r));
      } else if (r.nullit) ev("C04", "null-on-match", ctx + ": NULL iterator");
      else {
        if (is_ordered(o.kind)) {
          bool ok = r.ids.size() == cnt;
          for (size_t k = 0; ok && k < cnt; k++) ok = r.ids[k] == lo + 1 + k;
          if (!ok) {
            std::string got;
            for (size_t k = 0; k < r.ids.size() && k < 12; k++) got += std::to_string(r.ids[k]) + " ";
            ev("C04", "id-range", ctx + ": got " + std::to_string(r.ids.size()) + " IDs: " + got);
          }
          if (r.limits && (r.l != lo + 1 || r.r != hi)) ev("C04", "limits", ctx + ": limits " + std::to_string(r.l) + "," + std::to_string(r.r));
        } else {
          // XBW: IDs are the dictionary's own; compare through extract
          std::set<size_t> ids(r.ids.begin(), r.ids.end());
          if (ids.size() != r.ids.size()) ev("C04", "id-repeated", ctx + ": an ID is enumerated twice");
          if (ids.size() != cnt) ev("C04", "id-count", ctx + ": " + std::to_string(ids.size()) + " distinct IDs");
          else if (!skip("extract")) {
            std::set<size_t> mem;
            for (size_t id : ids) { ExtR e = op_extract(o, id, "extract"); int mi = e.null ? -1 : model_index(S, e.str); if (mi >= 0) mem.insert(mi); }
            bool ok = mem.size() == cnt;
            for (size_t mi : mem) if (mi < lo || mi >= hi) ok = false;
            if (!ok) ev("C04", "id-set", ctx + ": enumerated IDs do not extract to the matching members");
          }
        }
      }
    }
    if (!skip("extract_prefix")) {
      StrsR r = op_extract_strs(o, q.p, 0, "extract_prefix");
      std::string ctx = "extractPrefix(" + hexs(q.p) + ") [" + q.cls + "] expects " + std::to_string(cnt) + " strings from #" + std::to_string(lo + 1);
      if (r.runaway) ev("C04", "runaway-string-iterator", ctx + ": iterator yields more than n+2 strings");
      else if (cnt == 0) { if (!r.nullit && !r.strs.empty()) ev("C04", "strings-on-no-match", ctx + ": got " + hexs(r.strs[0])); }
      else if (r.nullit) ev("C04", "null-on-match", ctx + ": NULL iterator");
      else {
        std::vector<std::string> got = r.strs, exp(S.begin() + lo, S.begin() + hi);
        if (!is_ordered(o.kind)) std::sort(got.begin(), got.end(), ult);
        if (got != exp) {
          std::string g;
          for (size_t k = 0; k < got.size() && k < 6; k++) g += hexs(got[k]) + " ";
          ev("C04", "strings", ctx + ": got " + std::to_string(got.size()) + ": " + g);
        }
      }
    }
  }
  asan_also_prop.clear();
  if (multi && empty) cur->labels.insert("c04_nontrivial");
}

struct SubQ { std::string p; const char *cls; };
static std::vector<SubQ> substr_patterns(const Case &c, XorShift &x, size_t want) {
  const auto &S = c.S;
  size_t n = S.size();
  std::vector<SubQ> out;
  // XBW enumerates a substring match by walking the subtree of every matching trie node with a
  // quadratic queue: minutes for short patterns on KB-sized sets.  Performance is not part of any
  // property, so big XBW cases get few patterns of >=4 bytes.
  size_t minlen = 1;
  if (c.p.kind == K_XBW && c.gi.total > 1500) { minlen = 4; want = std::min<size_t>(want, 8); }
  if (c.p.kind == K_XBW && c.gi.total > 12000) { minlen = 6; want = 3; }
  auto add = [&](const std::string &q, const char *cls) {
    if (q.size() < minlen) return;
    if (q.empty()) return;
    for (unsigned char ch : q) if (ch < 2 || ch > 254) return;
    out.push_back({q, cls});
  };
  for (size_t k = 0; k < want; k++) {
    const std::string &m = S[x.below((uint32_t)n)];
    size_t L = m.size();
    switch (k % 8) {
      case 0: add(std::string(1, m[x.below((uint32_t)L)]), "single_byte"); break;
      case 1: { size_t a = x.below((uint32_t)L); add(m.substr(a, 1 + x.below((uint32_t)(L - a))), "inner"); break; }
      case 2: add(m.substr(L - 1 - x.below((uint32_t)L)), "suffix"); break;
      case 3: add(m.substr(0, 1 + x.below((uint32_t)L)), "prefix"); break;
      case 4: add(m, "whole_member"); break;
      case 5: { std::string q = m.substr(x.below((uint32_t)L)); q += (char)(2 + x.below(253)); add(q, "probably_absent"); break; }
      case 6: { size_t a = x.below((uint32_t)L); std::string q = m.substr(a, 1 + x.below(2)); add(q, "short_repeated"); break; }
      case 7: { std::string q = m; q += m; add(q, "longer_than_all"); break; }
    }
  }
  return out;
}

static bool has_substr(const Obj &o, const Case &c) { return (o.kind == K_FMINDEX && c.p.fm_bwt > 0) || o.kind == K_XBW; }

static void sweep_c05(Obj &o, const Case &c, XorShift &x) {
  if (!has_substr(o, c)) return;
  const auto &S = c.S;
  size_t n = S.size();
  auto ps = substr_patterns(c, x, n <= 8 ? 40 : 96);
  bool rep = false, absent = false;
  for (auto &q : ps) {
    if (xbw_too_costly(o, c, q.p, true)) continue;
    auto exp = model_substr(S, q.p);
    if (exp.empty()) { absent = true; cur->labels.insert("substr:absent"); }
    else {
      for (size_t i : exp) {
        const char *f = (const char *)memmem(S[i].data(), S[i].size(), q.p.data(), q.p.size());
        size_t off = f - S[i].data();
        if (off + 1 < S[i].size() && memmem(S[i].data() + off + 1, S[i].size() - off - 1, q.p.data(), q.p.size())) { rep = true; cur->labels.insert("substr:repeated_in_member"); break; }
      }
      cur->labels.insert(exp.size() >= 2 ? "substr:many_members" : "substr:one_member");
    }
    std::string ctx = "(" + hexs(q.p) + ") [" + q.cls + "] model: " + std::to_string(exp.size()) + " members";
    if (!skip("locate_substr")) {
      IdsR r = op_locate_ids(o, q.p, true, "locate_substr");
      if (r.runaway) ev("C05", "runaway-id-iterator", "locateSubstr" + ctx);
      else if (exp.empty()) { if (!r.nullit && !r.ids.empty()) ev("C05", "ids-on-no-match", "locateSubstr" + ctx + ": " + std::to_string(r.ids.size()) + " IDs, first " + std::to_string(r.ids[0])); }
      else if (r.nullit) ev("C05", "null-on-match", "locateSubstr" + ctx + ": NULL iterator");
      else {
        std::set<size_t> ids(r.ids.begin(), r.ids.end());
        if (ids.size() != r.ids.size()) ev("C05", "id-repeated", "locateSubstr" + ctx + ": " + std::to_string(r.ids.size()) + " IDs, " + std::to_string(ids.size()) + " distinct");
        if (is_ordered(o.kind)) {
          std::set<size_t> e;
          for (size_t i : exp) e.insert(i + 1);
          if (ids != e) {
            std::string got;
            int shown = 0;
            for (size_t id : r.ids) { if (shown++ >= 12) break; got += std::to_string(id) + " "; }
            ev("C05", "id-set", "locateSubstr" + ctx + ": got " + std::to_string(ids.size()) + " distinct IDs: " + got);
          }
        } else if (ids.size() != exp.size()) ev("C05", "id-count", "locateSubstr" + ctx + ": " + std::to_string(ids.size()) + " distinct IDs");
        else if (!skip("extract")) {
          std::set<size_t> mem;
          for (size_t id : ids) { ExtR e = op_extract(o, id, "extract"); int mi = e.null ? -1 : model_index(S, e.str); if (mi >= 0) mem.insert(mi); }
          if (mem != std::set<size_t>(exp.begin(), exp.end())) ev("C05", "id-set", "locateSubstr" + ctx + ": IDs do not extract to the matching members");
        }
      }
    }
    if (!skip("extract_substr")) {
      StrsR r = op_extract_strs(o, q.p, 1, "extract_substr");
      if (r.runaway) ev("C05", "runaway-string-iterator", "extractSubstr" + ctx);
      else if (exp.empty()) { if (!r.nullit && !r.strs.empty()) ev("C05", "strings-on-no-match", "extractSubstr" + ctx + ": got " + hexs(r.strs[0])); }
      else if (r.nullit) ev("C05", "null-on-match", "extractSubstr" + ctx + ": NULL iterator");
      else {
        std::vector<std::string> got = r.strs, e;
        for (size_t i : exp) e.push_back(S[i]);
        std::sort(got.begin(), got.end(), ult);
        if (got != e) {
          std::string g;
          for (size_t k = 0; k < got.size() && k < 6; k++) g += hexs(got[k]) + " ";
          ev("C05", "strings", "extractSubstr" + ctx + ": got " + std::to_string(got.size()) + ": " + g);
        }
      }
    }
  }
  if (rep && absent) cur->labels.insert("c05_nontrivial");
}

static void check_strs_protocol(const StrsR &r, const char *prop, const std::string &ctx) {
  if (r.len_mismatch) ev(prop, "iter-length-mismatch", ctx + ": a reported length differs from strlen");
  if (r.len_unset) ev(prop, "iter-length-unset", ctx + ": next() did not write the length");
  if (r.null_str) ev(prop, "iter-null-string", ctx + ": next() returned NULL while hasNext() was true");
  if (r.hasnext_sticky_fail) ev(prop, "hasnext-after-end", ctx + ": hasNext() true again after it was false");
}

static void sweep_c13(Obj &o, const Case &c, XorShift &x) {
  const auto &S = c.S;
  size_t n = S.size();
  uint32_t b = has_bucket(o.kind) ? std::max<uint32_t>(2, c.p.bucket) : 0;
  if (!skip("extract_table")) {
    StrsR t = op_extract_strs(o, "", 2, "extract_table");
    if (t.nullit) {
      if (o.kind != K_XBW) ev("C13", "table-null", "extractTable returned NULL");
    } else {
      if (t.runaway || t.strs.size() != n) ev("C13", "table-count", "extractTable yields " + std::to_string(t.strs.size()) + (t.runaway ? "+" : "") + " strings, numElements " + std::to_string(n));
      check_strs_protocol(t, "C13", "extractTable");
      size_t lim = std::min(t.strs.size(), n);
      bool extract_ok = !skip("extract");
      for (size_t k = 0; k < lim; k++) {
        if (is_ordered(o.kind) && t.strs[k] != S[k]) { ev("C13", "table-order", "table[" + std::to_string(k + 1) + "] = " + hexs(t.strs[k]) + " expected " + hexs(S[k])); break; }
        if (extract_ok && (n <= c.cap || k % (n / c.cap + 1) == 0)) {
          ExtR e = op_extract(o, k + 1, "extract");
          if (e.null || e.str != t.strs[k]) { ev("C13", "table-vs-extract", "table[" + std::to_string(k + 1) + "] = " + hexs(t.strs[k]) + " but extract gives " + (e.null ? "NULL" : hexs(e.str))); break; }
        }
      }
      if (b && (n % b == 0 || n % b == 1)) cur->labels.insert("table:n_mod_bucket_0_1");
    }
  }
  // scans starting at every in-bucket offset (front coding) / generic prefix and substring iterators
  if (has_prefix(o.kind)) {
    auto ps = prefix_patterns(c, x, 36);
    // members themselves as patterns: the scan starts at the member's in-bucket offset
    std::set<uint32_t> offs;
    for (size_t k = 0; k < n && k < (o.kind == K_XBW && c.gi.total > 1500 ? (c.gi.total > 12000 ? 0u : 6u) : 70u); k++) ps.push_back({S[(k * 7 + x.below(3)) % n].substr(0, std::max<size_t>(1, S[(k * 7) % n].size() / 2)), "half_member"});
    for (auto &q : ps) {
      if (xbw_too_costly(o, c, q.p, false)) continue;
      size_t lo, hi;
      model_prefix(S, q.p, lo, hi);
      size_t cnt = hi - lo;
      if (cnt >= 3 && b && lo % b != 0 && (hi - 1) / b > lo / b) cur->labels.insert("scan:offset_nonzero_crossing");
      if (b && cnt) offs.insert(lo % b);
      if (!skip("extract_prefix")) {
        StrsR r = op_extract_strs(o, q.p, 0, "extract_prefix");
        if (!r.nullit) {
          check_strs_protocol(r, "C13", "extractPrefix(" + hexs(q.p) + ")");
          if (r.runaway) ev("C13", "runaway-string-iterator", "extractPrefix(" + hexs(q.p) + ")");
        }
      }
      if (!skip("locate_prefix")) {
        IdsR r = op_locate_ids(o, q.p, false, "locate_prefix");
        if (r.runaway) ev("C13", "runaway-id-iterator", "locatePrefix(" + hexs(q.p) + ") yields more than n+2 IDs");
        std::set<size_t> ids(r.ids.begin(), r.ids.end());
        if (ids.size() != r.ids.size()) ev("C13", "id-repeated", "locatePrefix(" + hexs(q.p) + ") repeats an ID");
        if (is_ordered(o.kind) && !std::is_sorted(r.ids.begin(), r.ids.end())) ev("C13", "id-not-ascending", "locatePrefix(" + hexs(q.p) + ")");
      }
    }
    cur->counters["scan_offsets"] = (int)offs.size();
  }
  if (has_substr(o, c)) {
    auto ps = substr_patterns(c, x, 24);
    for (auto &q : ps) {
      if (xbw_too_costly(o, c, q.p, true)) continue;
      if (!skip("extract_substr")) {
        StrsR r = op_extract_strs(o, q.p, 1, "extract_substr");
        if (!r.nullit) {
          check_strs_protocol(r, "C13", "extractSubstr(" + hexs(q.p) + ")");
          if (r.runaway) ev("C13", "runaway-string-iterator", "extractSubstr(" + hexs(q.p) + ")");
        }
      }
      if (!skip("locate_substr")) {
        IdsR r = op_locate_ids(o, q.p, true, "locate_substr");
        if (r.runaway) ev("C13", "runaway-id-iterator", "locateSubstr(" + hexs(q.p) + ")");
        std::set<size_t> ids(r.ids.begin(), r.ids.end());
        if (ids.size() != r.ids.size()) ev("C13", "id-repeated", "locateSubstr(" + hexs(q.p) + ") repeats an ID");
        if (is_ordered(o.kind) && !std::is_sorted(r.ids.begin(), r.ids.end())) ev("C13", "id-not-ascending", "locateSubstr(" + hexs(q.p) + ")");
      }
    }
  }
}

static void sweep_c15(Obj &o, const Case &c) {
  if (skip("metadata")) return;
  size_t ne = 0;
  uint ml = 0;
  if (!lib([&] { ne = o.d->numElements(); ml = o.d->maxLength(); })) return;
  if (ne != c.S.size()) ev("C15", "numElements", "numElements() = " + std::to_string(ne) + " but " + std::to_string(c.S.size()) + " strings were supplied");
  if (ml < c.gi.maxlen || ml > c.gi.maxlen + 1) ev("C15", "maxLength", "maxLength() = " + std::to_string(ml) + " longest member has " + std::to_string(c.gi.maxlen));
}

static void sweep_c16(Obj &o, const Case &c, XorShift &x) {
  const auto &S = c.S;
  size_t n = S.size();
  int unsupported = 0;
  auto pat = [&]() { const std::string &m = S[x.below((uint32_t)n)]; return m.substr(0, 1 + x.below((uint32_t)m.size())); };
  auto ids_null = [&](bool substr, const char *opname) {
    if (skip(opname)) return;
    std::string q = pat();
    IdsR r = op_locate_ids(o, q, substr, opname);
    unsupported++;
    if (!r.nullit && !r.ids.empty()) ev("C16", "unsupported-fabricated", std::string(opname) + "(" + hexs(q) + ") on a kind that does not provide it returned " + std::to_string(r.ids.size()) + " IDs");
  };
  auto strs_null = [&](int which, const char *opname) {
    if (skip(opname)) return;
    std::string q = pat();
    StrsR r = op_extract_strs(o, q, which, opname);
    unsupported++;
    if (!r.nullit && !r.strs.empty()) ev("C16", "unsupported-fabricated", std::string(opname) + "(" + hexs(q) + ") on a kind that does not provide it returned " + std::to_string(r.strs.size()) + " strings");
  };
  for (int rep = 0; rep < 3; rep++) {
    if (is_hash(o.kind)) {
      ids_null(false, "unsup_locate_prefix");
      strs_null(0, "unsup_extract_prefix");
      ids_null(true, "unsup_locate_substr");
      strs_null(1, "unsup_extract_substr");
      if (!skip("unsup_locate_rank")) {
        cur->set_op("unsup_locate_rank");
        uint k = 1 + x.below((uint32_t)n);
        uint id = 0;
        lib([&] { id = o.d->locateRank(k); });
        unsupported++;
        if (id != 0) ev("C16", "unsupported-fabricated", "locateRank(" + std::to_string(k) + ") on a hash kind returned " + std::to_string(id));
      }
      if (!skip("unsup_extract_rank")) {
        ExtR e = op_extract(o, 1 + x.below((uint32_t)n), "unsup_extract_rank", true);
        unsupported++;
        if (!e.null) ev("C16", "unsupported-fabricated", "extractRank on a hash kind returned " + hexs(e.str));
      }
    } else if (is_fc(o.kind) || o.kind == K_RPDAC || (o.kind == K_FMINDEX && c.p.fm_bwt == 0)) {
      ids_null(true, "unsup_locate_substr");
      strs_null(1, "unsup_extract_substr");
      // PFC / RPFC answer every substring call with NULL whatever the arguments: a pattern longer than every
      // member must get the null iterator too (seed W8_C16; no draw from x, so older replay files keep their meaning)
      if ((o.kind == K_PFC || o.kind == K_RPFC) && rep == 0 && !skip("unsup_locate_substr") && !skip("unsup_extract_substr")) {
        std::string q = S[n - 1] + std::string(c.gi.maxlen + 1 + (n % 7) * 3, (char)('a' + n % 20));
        IdsR r = op_locate_ids(o, q, true, "unsup_locate_substr");
        unsupported++;
        if (!r.ex && !r.nullit) ev("C16", "unsupported-nonnull", "locateSubstr(member + " + std::to_string(q.size() - S[n - 1].size()) + " bytes, longer than every member) on " + std::string(o.kind == K_PFC ? "PFC" : "RPFC") + " returned a non-null iterator (" + std::to_string(r.ids.size()) + " IDs)");
        StrsR t = op_extract_strs(o, q, 1, "unsup_extract_substr");
        unsupported++;
        if (!t.ex && !t.nullit) ev("C16", "unsupported-nonnull", "extractSubstr(member + " + std::to_string(q.size() - S[n - 1].size()) + " bytes, longer than every member) on " + std::string(o.kind == K_PFC ? "PFC" : "RPFC") + " returned a non-null iterator (" + std::to_string(t.strs.size()) + " strings)");
        cur->labels.insert("unsup_long_pattern");
      }
    } else if (o.kind == K_XBW) {
      strs_null(2, "unsup_extract_table");
    }
    // the dictionary must stay fully usable
    if (unsupported && !skip("locate_member") && !skip("extract")) {
      const std::string &m = S[x.below((uint32_t)n)];
      unsigned long id = op_locate(o, m, "locate_member");
      ExtR e = op_extract(o, id, "extract");
      if (id < 1 || id > n || e.null || e.str != m) ev("C16", "unusable-after-unsupported", "after an unsupported call locate/extract of member " + hexs(m) + " gives id " + std::to_string(id));
      else cur->labels.insert("supported_after_unsupported");
    }
  }
  cur->counters["unsupported_calls"] += unsupported;
}


// C16, second half: unknown type tags and foreign images.  `img` is a valid image of the case's kind.
static void c16_tags_and_foreign_images(const Case &c, const std::string &img, XorShift &x) {
  if (img.size() < 4) return;
  static const uint32_t known[] = {11, 114, 12, 124, 125, 211, 214, 221, 222, 223, 3, 4, 5};   // 125 = HASHRPDACBlocks (known to the dispatcher since its repair)
  auto is_known = [&](uint32_t t) { for (uint32_t k : known) if (k == t) return true; return false; };
  std::vector<uint32_t> tags = {0, 1, 2, 6, 10, 13, 113, 115, 123, 125, 126, 210, 212, 213, 215, 220, 224, 0xFFFFFFFFu, 0x80000000u};
  for (uint32_t k : known) { tags.push_back(k | 0x100u << (8 * (x.below(3)))); tags.push_back(k | 0x80000000u); tags.push_back(k << 8); }
  for (int i = 0; i < 12; i++) tags.push_back((uint32_t)x.next());
  cur->state = "tags";
  int unknown_tried = 0;
  for (uint32_t t : tags) {
    if (is_known(t)) continue;
    for (int body = 0; body < 3; body++) {
      std::string im;
      im.append((const char *)&t, 4);
      if (body == 0) im += img.substr(4);                       // the rest of a valid image
      else if (body == 1) { for (int k = 0; k < 40; k++) im += (char)x.next(); }  // random bytes
      // body 2: nothing after the tag
      if (cur->skip("load_unknown_tag")) return;
      StringDictionary *d = nullptr;
      uint32_t opt = 1 + x.below(3);
      bool ok = lib([&] { std::istringstream is(im, std::ios::in | std::ios::binary); d = StringDictionary::load(is, opt); });
      obj_dead = false;
      unknown_tried++;
      if (!ok) { ev("C16", "unknown-tag-crash", "StringDictionary::load died on type tag " + std::to_string(t)); return; }
      if (d) { ev("C16", "unknown-tag-accepted", "StringDictionary::load returned an object for type tag " + std::to_string(t) + " (body variant " + std::to_string(body) + ")"); return; }
    }
  }
  cur->counters["unknown_tags_tried"] += unknown_tried;
  // every other kind's own loader must refuse this image
  cur->state = "foreign";
  int foreign = 0;
  for (int k = 0; k < K_COUNT; k++) {
    if (k == c.p.kind) continue;
    if (cur->skip("load_foreign_image")) return;
    StringDictionary *d = nullptr;
    bool ok = lib([&] { std::istringstream is(img, std::ios::in | std::ios::binary); d = load_own(k, is, 1 + x.below(3)); });
    obj_dead = false;
    foreign++;
    if (!ok) { ev("C16", "foreign-image-crash", std::string(kind_names[k]) + "::load died on an image of kind " + kind_names[c.p.kind]); return; }
    if (d) { ev("C16", "foreign-image-accepted", std::string(kind_names[k]) + "::load returned an object for an image of kind " + kind_names[c.p.kind]); return; }
  }
  cur->counters["foreign_loads"] += foreign;
  if (foreign) cur->labels.insert("foreign_image_refused");
}

// ------------------------------------------------------------------ object life cycle
static StringDictionary *do_build(const Case &c) {
  if (cur->skip("build")) { cur->conclusive = false; cur->inconclusive_reason = "excluded-by-known-finding"; return nullptr; }
  StringDictionary *d = nullptr;
  obj_dead = false;
  lib([&] { d = build_dict(c.p, c.S); });
  obj_dead = false;
  if (!d) { cur->conclusive = false; cur->inconclusive_reason = "build-failed"; }
  return d;
}
static bool do_save(StringDictionary *d, std::string &img) {
  if (skip("save")) return false;
  return lib([&] { img = save_image(d); });
}
static StringDictionary *do_load(const Case &c, const std::string &img, bool own) {
  const char *opn = own ? "load_own" : "load_generic";
  if (cur->skip(opn)) return nullptr;
  StringDictionary *d = nullptr;
  obj_dead = false;
  bool ok = lib([&] {
    if (own) { std::istringstream is(img, std::ios::in | std::ios::binary); d = load_own(c.p.kind, is, c.p.loadopt); }
    else d = load_generic(img, c.p.loadopt);
  });
  obj_dead = false;
  if (!ok) return nullptr;
  if (!d) cur->event("C06", "load-null", std::string(opn) + " returned NULL for an image written by save");
  return d;
}
static void do_destroy(StringDictionary *d) {
  if (!d) return;
  if (obj_dead) { obj_dead = false; return; }  // died inside a call: leaked on purpose
  if (cur->skip("destroy")) return;            // leaked on purpose: a known defect in the destructor
  lib([&] { delete d; });
  obj_dead = false;
}

// runs f on the three object states
static void for_states(const Case &c, const std::function<void(Obj &)> &f, bool fresh = true, bool gen = true, bool own = true) {
  cur->state = "fresh";
  StringDictionary *d = do_build(c);
  if (!d) return;
  Obj o{d, c.p.kind, c.S.size()};
  if (fresh) f(o);
  std::string img;
  cur->state = "fresh";
  bool died = obj_dead;
  bool saved = (gen || own) && do_save(d, img);
  do_destroy(d);
  if (!saved && died && (gen || own)) {
    // the fresh object died inside a query: build it again only to obtain the image
    StringDictionary *d2 = do_build(c);
    if (d2) { saved = do_save(d2, img); do_destroy(d2); }
  }
  if (!saved) return;
  if (gen) {
    cur->state = "gen";
    StringDictionary *g = do_load(c, img, false);
    if (g) { Obj og{g, c.p.kind, c.S.size()}; f(og); cur->state = "gen"; do_destroy(g); }
  }
  if (own) {
    cur->state = "own";
    StringDictionary *w = do_load(c, img, true);
    if (w) { Obj ow{w, c.p.kind, c.S.size()}; f(ow); cur->state = "own"; do_destroy(w); }
  }
}


// ------------------------------------------------------------------ canonical answers (differential oracles)
struct Query { int type; std::string pat; size_t id; };
enum { Q_LOCATE, Q_EXTRACT, Q_LOCPREFIX, Q_EXTPREFIX, Q_LOCSUBSTR, Q_EXTSUBSTR, Q_LOCRANK, Q_EXTRANK, Q_TABLE, Q_META };
static const char *q_opname(int t) {
  static const char *n[] = {"locate_member", "extract", "locate_prefix", "extract_prefix", "locate_substr", "extract_substr", "locate_rank", "extract_rank", "extract_table", "metadata"};
  return n[t];
}
static std::string q_render(const Query &q) {
  return std::string(q_opname(q.type)) + "(" + (q.type == Q_EXTRACT || q.type == Q_LOCRANK || q.type == Q_EXTRANK ? std::to_string(q.id) : hexs(q.pat)) + ")";
}

static std::string answer(Obj &o, const Query &q) {
  const char *opn = q_opname(q.type);
  if (skip(opn)) return "<skipped>";
  std::string a;
  switch (q.type) {
    case Q_LOCATE: a = std::to_string(op_locate(o, q.pat, opn)); break;
    case Q_EXTRACT: case Q_EXTRANK: {
      ExtR e = op_extract(o, q.id, opn, q.type == Q_EXTRANK);
      a = e.null ? "NULL/" + std::to_string(e.len) : std::to_string(e.len) + (e.len_mismatch ? "!" : "") + ":" + e.str;
      break;
    }
    case Q_LOCPREFIX: case Q_LOCSUBSTR: {
      IdsR r = op_locate_ids(o, q.pat, q.type == Q_LOCSUBSTR, opn);
      if (r.nullit || r.ids.empty()) a = "EMPTY";
      else { for (size_t id : r.ids) a += std::to_string(id) + ","; }
      if (r.runaway) a += "RUNAWAY";
      break;
    }
    case Q_EXTPREFIX: case Q_EXTSUBSTR: case Q_TABLE: {
      StrsR r = op_extract_strs(o, q.pat, q.type == Q_TABLE ? 2 : q.type == Q_EXTSUBSTR ? 1 : 0, opn);
      if (r.nullit || r.strs.empty()) a = "EMPTY";
      else { for (auto &t : r.strs) a += std::to_string(t.size()) + ":" + t + ","; }
      if (r.runaway) a += "RUNAWAY";
      if (r.len_mismatch) a += "LEN!";
      break;
    }
    case Q_LOCRANK: { cur->set_op(opn); uint id = 0; lib([&] { id = o.d->locateRank((uint)q.id); }); a = std::to_string(id); break; }
    case Q_META: { cur->set_op(opn); size_t ne = 0; uint ml = 0; lib([&] { ne = o.d->numElements(); ml = o.d->maxLength(); }); a = std::to_string(ne) + "/" + std::to_string(ml); break; }
  }
  if (obj_dead) return "<died>";
  return a;
}

static std::vector<Query> gen_queries(const Case &c, XorShift &x, size_t count, bool with_table = true) {
  const auto &S = c.S;
  size_t n = S.size();
  std::vector<Query> qs;
  Obj fake{nullptr, c.p.kind, n};
  bool substr = (c.p.kind == K_FMINDEX && c.p.fm_bwt > 0) || c.p.kind == K_XBW;
  auto absent = absent_queries(c, x, 12);
  auto pref = has_prefix(c.p.kind) ? prefix_patterns(c, x, 18) : std::vector<PrefQ>();
  auto sub = substr ? substr_patterns(c, x, 16) : std::vector<SubQ>();
  for (size_t k = 0; k < count; k++) {
    Query q{0, "", 0};
    switch (x.below(14)) {
      case 0: case 1: case 2: q.type = Q_LOCATE; q.pat = S[x.below((uint32_t)n)]; break;
      case 3: q.type = Q_LOCATE; if (absent.empty()) continue; q.pat = absent[x.below((uint32_t)absent.size())].q; break;
      case 4: case 5: case 6: q.type = Q_EXTRACT; q.id = 1 + x.below((uint32_t)n); break;
      case 7: q.type = Q_EXTRACT; q.id = x.below(3) == 0 ? 0 : n + 1 + x.below(5); break;
      case 8: if (pref.empty()) continue; q.type = x.below(2) ? Q_LOCPREFIX : Q_EXTPREFIX; q.pat = pref[x.below((uint32_t)pref.size())].p; if (xbw_too_costly(fake, c, q.pat, false)) continue; break;
      case 9: if (sub.empty()) continue; q.type = x.below(2) ? Q_LOCSUBSTR : Q_EXTSUBSTR; q.pat = sub[x.below((uint32_t)sub.size())].p; if (xbw_too_costly(fake, c, q.pat, true)) continue; break;
      case 10: q.type = Q_LOCRANK; q.id = 1 + x.below((uint32_t)n); break;
      case 11: q.type = Q_EXTRANK; q.id = 1 + x.below((uint32_t)n); break;
      case 12: if (!with_table || c.p.kind == K_XBW || n > 400) continue; q.type = Q_TABLE; break;
      case 13: q.type = Q_META; break;
    }
    qs.push_back(q);
  }
  return qs;
}

// ------------------------------------------------------------------ C06: persistence
static void run_c06(const Case &c, XorShift &x) {
  attr_override = "C06";
  cur->state = "fresh";
  StringDictionary *d = do_build(c);
  if (!d) { attr_override.clear(); return; }
  Obj o{d, c.p.kind, c.S.size()};
  auto qs = gen_queries(c, x, c.S.size() <= 8 ? 60 : 140);
  std::vector<std::string> ref;
  for (auto &q : qs) ref.push_back(answer(o, q));
  bool fresh_ok = !obj_dead;
  std::string img;
  bool saved = !obj_dead && do_save(d, img);
  do_destroy(d);
  if (!saved) {
    StringDictionary *d2 = do_build(c);
    if (d2) { saved = do_save(d2, img); do_destroy(d2); }
  }
  if (!saved) { attr_override.clear(); return; }
  cur->counters["image_bytes"] = (int)std::min<size_t>(img.size(), 1 << 30);
  for (int own = 0; own < 2; own++) {
    cur->state = own ? "own" : "gen";
    StringDictionary *l = do_load(c, img, own);
    if (!l) continue;
    Obj ol{l, c.p.kind, c.S.size()};
    // (i) same answers as the original object
    if (fresh_ok)
      for (size_t k = 0; k < qs.size() && !obj_dead; k++) {
        std::string a = answer(ol, qs[k]);
        if (a != ref[k] && a != "<skipped>" && ref[k] != "<skipped>" && ref[k] != "<died>")
          ev("C06", "loaded-differs-from-original", q_render(qs[k]) + ": original " + hexs(ref[k].substr(0, 120)) + " loaded " + hexs(a.substr(0, 120)));
      }
    // ... and as the reference model
    if (!obj_dead) sweep_c01(ol, c, x);
    if (!obj_dead) sweep_c15(ol, c);
    if (!obj_dead && is_ordered(c.p.kind)) sweep_c03(ol, c, x);
    if (!obj_dead && c.S.size() <= 200) { sweep_c04(ol, c, x); if (!obj_dead) sweep_c05(ol, c, x); if (!obj_dead) sweep_c13(ol, c, x); }
    cur->state = own ? "own" : "gen";
    do_destroy(l);
  }
  // (ii) self-delimiting images: A, B (a second dictionary of the same kind), 16 sentinel bytes in one stream
  {
    Case c2 = c;
    c2.S.assign(c.S.begin(), c.S.begin() + std::max<size_t>(1, c.S.size() / 2));
    c2.gi.total = 0; c2.gi.maxlen = 0;
    for (auto &t : c2.S) { c2.gi.total += t.size() + 1; c2.gi.maxlen = std::max(c2.gi.maxlen, t.size()); }
    // the second dictionary may fall into a recorded defect's domain although the first does not
    std::set<std::string> saved_feats = cur->feats;
    {
      CaseCtx *keep = cur;
      (void)keep;
      cur->feats.clear();
      Case &cc = c2;
      size_t n2 = cc.S.size();
      if (n2 == 1) cur->feats.insert("n1");
      if (has_bucket(cc.p.kind)) { uint32_t b = std::max<uint32_t>(2, cc.p.bucket); if (n2 % b == 0) cur->feats.insert("n_mult_bucket"); if (n2 % b == 1) cur->feats.insert("last_bucket_single"); }
      for (auto &f : saved_feats) if (f == "run_ge14" || f == "run_ge6" || f == "textlike" || f == "tiny_text" || f == "dominant_symbol") cur->feats.insert(f);
    }
    cur->state = "fresh";
    std::string img2;
    StringDictionary *b = do_build(c2);
    bool ok2 = b && do_save(b, img2);
    do_destroy(b);
    cur->feats = saved_feats;
    cur->conclusive = true; cur->inconclusive_reason.clear();
    if (ok2) {
      static const char sentinel[17] = "\xA5SENTINEL-16-B\xA5\x5A";
      std::string stream = img + img2 + std::string(sentinel, 16);
      std::istringstream is(stream, std::ios::in | std::ios::binary);
      cur->state = "own";
      StringDictionary *l1 = nullptr, *l2 = nullptr;
      long long t1 = -2, t2 = -2;
      if (!cur->skip("load_own")) {
        obj_dead = false;
        bool ok = lib([&] { l1 = load_own(c.p.kind, is, c.p.loadopt); t1 = (long long)is.tellg(); });
        if (ok && l1) {
          if (t1 != (long long)img.size()) ev("C06", "not-self-delimiting", "own loader consumed " + std::to_string(t1) + " bytes of an image of " + std::to_string(img.size()));
          else {
            bool okb = lib([&] { l2 = load_own(c.p.kind, is, c.p.loadopt); t2 = (long long)is.tellg(); });
            if (okb && !l2) ev("C06", "second-image-null", "own loader returned NULL for the second image of a stream");
            else if (okb && t2 != (long long)(img.size() + img2.size())) ev("C06", "not-self-delimiting", "second load consumed up to " + std::to_string(t2) + " expected " + std::to_string(img.size() + img2.size()));
            else if (okb) {
              char tail[16];
              is.read(tail, 16);
              if (is.gcount() != 16 || memcmp(tail, sentinel, 16) != 0) ev("C06", "sentinel-damaged", "bytes after the second image are not intact");
              else cur->labels.insert("c06_stream_of_two");
              // the second object answers for its own set
              if (l2) {
                Obj o2{l2, c.p.kind, c2.S.size()};
                obj_dead = false;
                if (!skip("locate_member") && !skip("extract")) {
                  const std::string &m = c2.S[x.below((uint32_t)c2.S.size())];
                  unsigned long id = op_locate(o2, m, "locate_member");
                  ExtR e = op_extract(o2, id, "extract");
                  if (!obj_dead && (id < 1 || id > c2.S.size() || e.null || e.str != m)) ev("C06", "second-image-wrong", "dictionary loaded from the second image of a stream does not round-trip member " + hexs(m));
                }
              }
            }
          }
        }
        obj_dead = false;
        if (l1) do_destroy(l1);
        obj_dead = false;
        if (l2) do_destroy(l2);
      }
      // the generic loader on the second image of the same stream: it selects the kind from the tag at the
      // current position and consumes exactly that image
      if (!cur->skip("load_generic") && !obj_dead) {
        std::istringstream is2(stream, std::ios::in | std::ios::binary);
        is2.seekg((std::streamoff)img.size());
        StringDictionary *g2 = nullptr;
        long long tg = -2;
        cur->state = "gen";
        cur->set_op("load_generic");
        bool okg = lib([&] { g2 = StringDictionary::load(is2, c.p.loadopt); tg = (long long)is2.tellg(); });
        if (okg && !g2) ev("C06", "generic-second-image-null", "the generic loader returns NULL for an image that does not start the stream");
        else if (okg) {
          if (tg != (long long)(img.size() + img2.size())) ev("C06", "generic-not-self-delimiting", "generic loader on the second image stopped at " + std::to_string(tg) + " expected " + std::to_string(img.size() + img2.size()));
          Obj og{g2, c.p.kind, c2.S.size()};
          obj_dead = false;
          size_t ne = 0;
          lib([&] { ne = g2->numElements(); });
          if (!obj_dead && ne != c2.S.size()) ev("C06", "generic-second-image-wrong", "the generic loader positioned on the second image returns a dictionary of " + std::to_string(ne) + " elements, the image holds " + std::to_string(c2.S.size()));
          else if (!obj_dead && !skip("locate_member") && !skip("extract")) {
            const std::string &m = c2.S[x.below((uint32_t)c2.S.size())];
            unsigned long id = op_locate(og, m, "locate_member");
            ExtR e = op_extract(og, id, "extract");
            if (!obj_dead && (id < 1 || id > c2.S.size() || e.null || e.str != m)) ev("C06", "generic-second-image-wrong", "dictionary loaded by the generic loader from the second image does not round-trip member " + hexs(m));
            else if (!obj_dead) cur->labels.insert("c06_generic_second_image");
          }
          obj_dead = false;
          do_destroy(g2);
        }
      }
    }
  }
  attr_override.clear();
}

// ------------------------------------------------------------------ C08: save is pure and deterministic
static void run_c08(const Case &c, XorShift &x) {
  attr_override = "C08";
  cur->state = "fresh";
  StringDictionary *d = do_build(c);
  if (!d) { attr_override.clear(); return; }
  Obj o{d, c.p.kind, c.S.size()};
  auto qs = gen_queries(c, x, 40);
  std::vector<std::string> before;
  for (auto &q : qs) before.push_back(answer(o, q));
  std::string img1, img2, img3;
  bool ok = !obj_dead && do_save(d, img1);
  int saves = ok ? 1 : 0;
  if (ok) {
    // answers unchanged by save
    for (size_t k = 0; k < qs.size() && !obj_dead; k++) {
      std::string a = answer(o, qs[k]);
      if (a != before[k] && a != "<died>") ev("C08", "answer-changed-by-save", q_render(qs[k]) + ": before " + hexs(before[k].substr(0, 100)) + " after " + hexs(a.substr(0, 100)));
    }
    cur->op = "save";
    if (!obj_dead && do_save(d, img2)) {
      saves++;
      if (img1 != img2) ev("C08", "second-save-differs", "second save wrote " + std::to_string(img2.size()) + " bytes, first " + std::to_string(img1.size()) + (img1.size() == img2.size() ? " (same size, different content)" : ""));
      // more saves interleaved with queries
      for (int r = 0; r < 2 && !obj_dead; r++) {
        for (int k = 0; k < 5 && !obj_dead; k++) answer(o, qs[x.below((uint32_t)qs.size())]);
        if (!obj_dead && do_save(d, img3)) { saves++; if (img3 != img1) { ev("C08", "later-save-differs", "save #" + std::to_string(r + 3) + " differs from the first"); break; } }
      }
    }
  }
  do_destroy(d);
  // two builds from the same input
  if (ok) {
    cur->state = "fresh";
    StringDictionary *e = do_build(c);
    std::string imgB;
    if (e && do_save(e, imgB)) {
      if (imgB != img1) {
        size_t at = 0;
        while (at < imgB.size() && at < img1.size() && imgB[at] == img1[at]) at++;
        ev("C08", "rebuild-differs", "two builds of the same input give different images (sizes " + std::to_string(img1.size()) + "/" + std::to_string(imgB.size()) + ", first difference at byte " + std::to_string(at) + ")");
      } else cur->labels.insert("c08_rebuild_equal");
    }
    do_destroy(e);
  }
  // loaded object: save again
  if (ok) {
    for (int own = 0; own < 2; own++) {
      cur->state = own ? "own" : "gen";
      StringDictionary *l = do_load(c, img1, own);
      if (!l) continue;
      Obj ol{l, c.p.kind, c.S.size()};
      std::vector<std::string> lb;
      for (auto &q : qs) lb.push_back(answer(ol, q));
      std::string r1, r2;
      cur->op = "resave";
      bool sv = !obj_dead && !skip("resave") && lib([&] { cur->set_op("resave"); r1 = save_image(l); });
      if (sv) {
        for (size_t k = 0; k < qs.size() && !obj_dead; k++) {
          std::string a = answer(ol, qs[k]);
          if (a != lb[k] && a != "<died>") ev("C08", "answer-changed-by-save", "loaded object, " + q_render(qs[k]) + ": before " + hexs(lb[k].substr(0, 100)) + " after " + hexs(a.substr(0, 100)));
        }
        if (!obj_dead && !skip("resave") && lib([&] { cur->set_op("resave"); r2 = save_image(l); }) && r1 != r2) ev("C08", "second-save-differs", "loaded object: two saves differ");
        if (r1 == img1) cur->labels.insert("c08_resave_identical");
        else {
          // the weaker alternative the statement allows: the re-saved image loads equivalently
          cur->labels.insert("c08_resave_differs");
          StringDictionary *l2 = nullptr;
          bool lk = !skip(own ? "load_own" : "load_generic") && lib([&] {
            cur->set_op(own ? "load_own" : "load_generic");
            if (own) { std::istringstream is(r1, std::ios::in | std::ios::binary); l2 = load_own(c.p.kind, is, c.p.loadopt); }
            else l2 = load_generic(r1, c.p.loadopt);
          });
          if (lk && !l2) ev("C08", "resaved-image-unloadable", "image written by a loaded object (" + std::to_string(r1.size()) + " bytes, original " + std::to_string(img1.size()) + ") is rejected by the loader");
          else if (lk) {
            Obj o2{l2, c.p.kind, c.S.size()};
            obj_dead = false;
            for (size_t k = 0; k < qs.size() && !obj_dead; k++) {
              std::string a = answer(o2, qs[k]);
              if (a != lb[k] && a != "<died>") { ev("C08", "resaved-image-differs", "dictionary loaded from a re-saved image: " + q_render(qs[k]) + " gives " + hexs(a.substr(0, 100)) + " expected " + hexs(lb[k].substr(0, 100))); break; }
            }
            do_destroy(l2);
            obj_dead = false;
          }
        }
      }
      cur->state = own ? "own" : "gen";
      do_destroy(l);
    }
  }
  cur->counters["saves"] += saves;
  attr_override.clear();
}


// C06, consecutive sizes: packed arrays whose bit count is an exact multiple of the word size (or ends one
// entry short of it) only occur for some dictionary sizes.  One case = one string family of 3 000-5 200 strings
// (more than 64 KB of text, so offsets need more than 16 bits); the dictionary is built, saved and loaded
// for 72 consecutive sizes N..N+71 (40 for XBW / FMINDEX; every residue of the entry counts modulo 32 and 64 for the
// per-string / per-bucket arrays, a spread of residues for the grammar arrays), and members near the end and
// the beginning plus a few random ones are located and extracted on the loaded object.
static void run_c06_nsweep(const Case &c0, XorShift &x) {
  attr_override = "C06";
  const size_t SPAN = (c0.p.kind == K_XBW || c0.p.kind == K_FMINDEX) ? 40 : 72;   // the two slow builders get fewer sizes
  if (c0.S.size() < SPAN + 200) { attr_override.clear(); cur->conclusive = false; cur->inconclusive_reason = "nsweep-set-too-small"; return; }
  size_t N = std::min<size_t>(c0.S.size(), 5200) - SPAN;
  size_t done = 0;
  for (size_t k = 0; k < SPAN && !cur->tainted; k++) {
    Case c = c0;
    c.S.assign(c0.S.begin(), c0.S.begin() + N + k);
    c.gi.total = 0;
    for (auto &t : c.S) c.gi.total += t.size() + 1;
    size_t n = c.S.size();
    // features that depend on n
    cur->feats.erase("n_mult_bucket"); cur->feats.erase("last_bucket_single");
    if (has_bucket(c.p.kind)) { uint32_t b = std::max<uint32_t>(2, c.p.bucket); if (n % b == 0) cur->feats.insert("n_mult_bucket"); if (n % b == 1) cur->feats.insert("last_bucket_single"); }
    cur->state = "fresh";
    StringDictionary *d = do_build(c);
    if (!d) continue;
    std::string img;
    bool sv = do_save(d, img);
    do_destroy(d);
    if (!sv) continue;
    cur->state = "own";
    StringDictionary *l = do_load(c, img, true);
    if (!l) continue;
    Obj ol{l, c.p.kind, n};
    std::vector<size_t> idx;
    for (size_t q = 0; q < 6 && q < n; q++) { idx.push_back(n - 1 - q); idx.push_back(q); }
    for (int q = 0; q < 6; q++) idx.push_back(x.below((uint32_t)n));
    for (size_t i : idx) {
      if (obj_dead) break;
      if (skip("locate_member") || skip("extract")) break;
      unsigned long id = op_locate(ol, c.S[i], "locate_member");
      if (obj_dead) break;
      if (id < 1 || id > n) { ev("C06", "loaded-member-not-found", "n=" + std::to_string(n) + ": locate of member #" + std::to_string(i + 1) + " on the loaded object gives " + std::to_string(id)); break; }
      ExtR e = op_extract(ol, id, "extract");
      if (obj_dead) break;
      if (e.null || e.str != c.S[i]) { ev("C06", "loaded-roundtrip-mismatch", "n=" + std::to_string(n) + ": extract(locate(member #" + std::to_string(i + 1) + ")=" + std::to_string(id) + ") on the loaded object is not that member"); break; }
      if (is_ordered(c.p.kind) && id != i + 1) { ev("C06", "loaded-id-order", "n=" + std::to_string(n) + ": member #" + std::to_string(i + 1) + " has ID " + std::to_string(id) + " on the loaded object"); break; }
    }
    do_destroy(l);
    done++;
    if (cur->reportable("C06")) break;
  }
  cur->counters["nsweep_sizes"] += (int)done;
  if (done >= SPAN / 2) cur->labels.insert("c06_nsweep");
  attr_override.clear();
}

// C08, uninitialised memory in the image: the plain (non-sanitizer) build flips glibc's M_PERTURB byte
// between two builds of the same case; fresh heap memory is then filled with different garbage, so any
// image byte that was never written differs.  (tcache is switched off by the driver: GLIBC_TUNABLES.)
static void run_c08_perturb(const Case &c) {
#ifdef VERIF_PLAIN
  attr_override = "C08";
  std::string imgs[2];
  bool ok = true;
  for (int k = 0; k < 2 && ok; k++) {
    mallopt(M_PERTURB, k ? 0xEE : 0x11);
    cur->state = "fresh";
    StringDictionary *d = do_build(c);
    ok = d && do_save(d, imgs[k]);
    do_destroy(d);
  }
  mallopt(M_PERTURB, 0);
  if (ok) {
    cur->labels.insert("c08_perturb_pair");
    if (imgs[0] != imgs[1]) {
      size_t at = 0;
      while (at < imgs[0].size() && at < imgs[1].size() && imgs[0][at] == imgs[1][at]) at++;
      ev("C08", "uninitialised-bytes-in-image", "two builds under different heap fill patterns give different images (sizes " + std::to_string(imgs[0].size()) + "/" + std::to_string(imgs[1].size()) + ", first difference at byte " + std::to_string(at) + "): the image contains memory that was never written");
    }
  }
  attr_override.clear();
#else
  (void)c;
#endif
}

// C07, uninitialised / freed memory that influences results: the plain build answers the same generated
// queries on two builds of the same case, once with every fresh heap block filled with 0x11 and once with
// 0xEE (glibc M_PERTURB; freed blocks get the complement).  An answer that differs between the two runs was
// computed from memory the library never wrote (or had already freed).
static void run_c07_perturb(const Case &c, XorShift &x0) {
#ifdef VERIF_PLAIN
  attr_override = "C07";
  std::vector<std::string> ans[2];
  std::vector<Query> qs;
  bool ok = true;
  for (int k = 0; k < 2 && ok; k++) {
    XorShift x = x0;
    mallopt(M_PERTURB, k ? 0xEE : 0x11);
    cur->state = "fresh";
    StringDictionary *d = do_build(c);
    if (!d) { ok = false; break; }
    Obj o{d, c.p.kind, c.S.size()};
    qs = gen_queries(c, x, 60);
    for (auto &q : qs) ans[k].push_back(answer(o, q));
    bool alive = !obj_dead;
    std::string img;
    bool sv = alive && do_save(d, img);
    do_destroy(d);
    if (sv) {
      cur->state = "own";
      StringDictionary *l = do_load(c, img, true);
      if (l) {
        Obj ol{l, c.p.kind, c.S.size()};
        for (auto &q : qs) ans[k].push_back(answer(ol, q));
        do_destroy(l);
      } else ok = false;
    } else ok = false;
  }
  mallopt(M_PERTURB, 0);
  if (ok && ans[0].size() == ans[1].size()) {
    cur->labels.insert("c07_perturb_pair");
    for (size_t i = 0; i < ans[0].size(); i++)
      if (ans[0][i] != ans[1][i] && ans[0][i] != "<died>" && ans[1][i] != "<died>" && ans[0][i] != "<skipped>" && ans[1][i] != "<skipped>") {
        const Query &q = qs[i % qs.size()];
        ev("C07", "uninitialised-memory-influences-result", std::string(i < qs.size() ? "fresh" : "loaded") + " object: " + q_render(q) + " answers " + hexs(ans[0][i].substr(0, 100)) + " under heap fill 0x11 and " + hexs(ans[1][i].substr(0, 100)) + " under 0xEE");
        break;
      }
  }
  attr_override.clear();
#else
  (void)c; (void)x0;
#endif
}

// ------------------------------------------------------------------ C12: tuning parameters never change answers
static bool params_differ_in_layout(const Case &a, const Case &b) {
  int k = a.p.kind;
  if (has_bucket(k)) return std::max<uint32_t>(2, a.p.bucket) != std::max<uint32_t>(2, b.p.bucket);
  if (k == K_FMINDEX) return a.p.fm_sparse != b.p.fm_sparse || a.p.fm_bparam != b.p.fm_bparam || a.p.fm_bwt != b.p.fm_bwt;
  if (k == K_BLOCKS) return a.p.cut != b.p.cut || a.p.threads != b.p.threads || a.p.overhead != b.p.overhead;
  if (is_hash(k)) return a.p.overhead != b.p.overhead || a.p.loadopt != b.p.loadopt;
  return false;
}

static void run_c12(const Case &c, Src &rest, XorShift &x) {
  attr_override = "C12";
  // second parameter vector of the same kind (and, for ordered kinds, possibly another ordered kind)
  Case c2 = c;
  gen_params(rest, c2.p, c.S.size(), c.gi.total, true, false);
  c2.p.memalloc = c.p.memalloc;
  bool cross = is_ordered(c.p.kind) && rest.byte() % 3 == 0;
  if (cross) { static const int ord[] = {K_PFC, K_RPFC, K_HTFC, K_RPDAC, K_FMINDEX}; c2.p.kind = ord[rest.byte() % 5]; }
  bool hashlike = is_hash(c.p.kind) || c.p.kind == K_XBW;
  bool clampA = has_bucket(c.p.kind) && c.p.bucket < 2;
  auto qs = gen_queries(c, x, 80);
  // queries both sides support: substring search needs a sampled FM-index on both
  std::vector<Query> q2;
  for (auto &q : qs) {
    if ((q.type == Q_LOCSUBSTR || q.type == Q_EXTSUBSTR) && (cross || (c2.p.kind == K_FMINDEX && (c2.p.fm_bwt == 0 || c.p.fm_bwt == 0)))) continue;
    q2.push_back(q);
  }
  auto feats_for = [&](const Case &cc) {
    std::set<std::string> f = cur->feats;
    f.erase("n_mult_bucket"); f.erase("last_bucket_single"); f.erase("one_bucket"); f.erase("bucket_lt2");
    if (has_bucket(cc.p.kind)) {
      uint32_t b = std::max<uint32_t>(2, cc.p.bucket);
      size_t n = cc.S.size();
      if (cc.p.bucket < 2) f.insert("bucket_lt2");
      if (n % b == 0) f.insert("n_mult_bucket");
      if (n % b == 1) f.insert("last_bucket_single");
      if (n <= b) f.insert("one_bucket");
    }
    return f;
  };
  std::set<std::string> fA = feats_for(c), fB = feats_for(c2);
  std::string kindA = kind_names[c.p.kind], kindB = kind_names[c2.p.kind];
  std::vector<std::string> ansA, ansB;
  std::string imgA, imgB;
  std::string errA, errB;
  auto run_side = [&](const Case &cc, const std::set<std::string> &f, const std::string &kn, std::vector<std::string> &ans, std::string &img, std::string &err) -> bool {
    cur->feats = f; cur->kind = kn; cur->state = "fresh";
    mark_capture();
    StringDictionary *d = do_build(cc);
    err = captured_since_mark();
    if (!d) return false;
    // the hash representation (1..3) of HASHHF / HASHRPF is chosen when an image is loaded: these two kinds
    // answer through an object loaded with the side's load option, so the option is one of the compared parameters
    if (cc.p.kind == K_HASHHF || cc.p.kind == K_HASHRPF) {
      std::string im0;
      bool sv = do_save(d, im0);
      do_destroy(d);
      if (!sv) return false;
      cur->state = "own";
      d = do_load(cc, im0, true);
      if (!d) return false;
      cur->labels.insert("c12_loadopt" + std::to_string(cc.p.loadopt));
      img = im0;   // a loaded object is not saved again here (re-saving is C08's business)
    }
    Obj o{d, cc.p.kind, cc.S.size()};
    for (auto &q : q2) ans.push_back(answer(o, q));
    bool alive = !obj_dead;
    if (alive && img.empty()) do_save(d, img);
    do_destroy(d);
    return alive;
  };
  std::set<std::string> keep = cur->feats;
  bool okA = run_side(c, fA, kindA, ansA, imgA, errA);
  bool okB = okA && run_side(c2, fB, kindB, ansB, imgB, errB);
  cur->feats = keep; cur->kind = kindA;
  if (okA && okB) {
    cur->conclusive = true; cur->inconclusive_reason.clear();
    cur->op = "compare";
    for (size_t k = 0; k < q2.size(); k++) {
      const Query &q = q2[k];
      if (ansA[k] == "<skipped>" || ansB[k] == "<skipped>") continue;
      bool id_answer = q.type == Q_LOCATE || q.type == Q_LOCPREFIX || q.type == Q_LOCSUBSTR || q.type == Q_LOCRANK;
      bool by_id = q.type == Q_EXTRACT || q.type == Q_EXTRANK || q.type == Q_TABLE;
      if (hashlike) {
        // IDs of hash kinds are not fixed by the input: compare membership only
        if (q.type == Q_LOCATE) { if ((ansA[k] == "0") != (ansB[k] == "0")) ev("C12", "membership-differs", q_render(q) + ": " + ansA[k] + " vs " + ansB[k] + " for params " + c.p.str() + " / " + c2.p.str()); }
        else if (q.type == Q_META) { if (ansA[k] != ansB[k]) ev("C12", "metadata-differs", ansA[k] + " vs " + ansB[k]); }
        else if (q.type == Q_EXTRACT && (q.id == 0 || q.id > c.S.size())) { if (ansA[k] != ansB[k]) ev("C12", "answer-differs", q_render(q) + ": " + ansA[k] + " vs " + ansB[k]); }
        else if (q.type == Q_TABLE || q.type == Q_EXTPREFIX || q.type == Q_EXTSUBSTR) {
          // same strings as multisets
          auto split = [](const std::string &s2) { std::vector<std::string> v; size_t a = 0; while (a < s2.size()) { size_t b = s2.find(':', a); if (b == std::string::npos) break; size_t len = strtoul(s2.c_str() + a, nullptr, 10); v.push_back(s2.substr(b + 1, len)); a = b + 1 + len + 1; } std::sort(v.begin(), v.end()); return v; };
          if (ansA[k] != "EMPTY" && ansB[k] != "EMPTY" && split(ansA[k]) != split(ansB[k])) ev("C12", "strings-differ", q_render(q) + " yields different string sets for params " + c.p.str() + " / " + c2.p.str());
          if ((ansA[k] == "EMPTY") != (ansB[k] == "EMPTY")) ev("C12", "strings-differ", q_render(q) + " empty for one parameter vector only");
        } else if (q.type == Q_LOCPREFIX || q.type == Q_LOCSUBSTR) {
          auto cnt = [](const std::string &s2) { return s2 == "EMPTY" ? (size_t)0 : (size_t)std::count(s2.begin(), s2.end(), ','); };
          if (cnt(ansA[k]) != cnt(ansB[k])) ev("C12", "count-differs", q_render(q) + ": " + std::to_string(cnt(ansA[k])) + " vs " + std::to_string(cnt(ansB[k])) + " IDs");
        }
        (void)id_answer; (void)by_id;
      } else if (ansA[k] != ansB[k]) {
        // maxLength may legitimately be L or L+1 per kind: compare metadata across kinds leniently
        if (q.type == Q_META && cross) {
          if (ansA[k].substr(0, ansA[k].find('/')) != ansB[k].substr(0, ansB[k].find('/'))) ev("C12", "metadata-differs", ansA[k] + " vs " + ansB[k]);
          continue;
        }
        ev("C12", cross ? "kinds-disagree" : "answer-differs", q_render(q) + ": " + hexs(ansA[k].substr(0, 100)) + " [" + kindA + " " + c.p.str() + "] vs " + hexs(ansB[k].substr(0, 100)) + " [" + kindB + " " + c2.p.str() + "]");
      }
    }
    // bucket size below 2: same dictionary as bucket size 2, with a warning
    if (has_bucket(c.p.kind) && (clampA || c2.p.bucket < 2) && !cross) {
      const Case &cl = clampA ? c : c2;
      const std::string &ec = clampA ? errA : errB;
      Case c3 = cl;
      c3.p.bucket = 2;
      std::vector<std::string> a3;
      std::string img3, e3;
      std::set<std::string> f3 = feats_for(c3);
      if (run_side(c3, f3, kindA, a3, img3, e3)) {
        const std::string &imgc = clampA ? imgA : imgB;
        if (imgc != img3) ev("C12", "clamp-image-differs", "bucket size " + std::to_string(cl.p.bucket) + " does not give the bucket-size-2 dictionary (image sizes " + std::to_string(imgc.size()) + "/" + std::to_string(img3.size()) + ")");
        if (ec.find_first_not_of(" \n\r\t") == std::string::npos) ev("C12", "clamp-no-warning", "bucket size " + std::to_string(cl.p.bucket) + " was accepted without any warning on the error stream");
        cur->labels.insert("c12_clamp");
      }
      cur->feats = keep; cur->kind = kindA;
    }
    if (cross) cur->labels.insert("c12_cross_kind");
    if (params_differ_in_layout(c, c2) && !cross) cur->labels.insert("c12_layout_differs");
  }
  attr_override.clear();
}

// ------------------------------------------------------------------ C14: queries are pure
static void run_c14(const Case &c, XorShift &x) {
  attr_override = "C14";
  cur->state = "fresh";
  StringDictionary *d = do_build(c);
  if (!d) { attr_override.clear(); return; }
  std::string img;
  bool saved = do_save(d, img);
  int which = x.below(3);  // object under test: fresh / generic-loaded / own-loaded
  if (c.p.kind == K_BLOCKS && which == 1) which = 2;
  StringDictionary *D = d;
  if (saved && which != 0) {
    cur->state = which == 1 ? "gen" : "own";
    StringDictionary *l = do_load(c, img, which == 2);
    if (l) { cur->state = "fresh"; do_destroy(d); D = l; cur->state = which == 1 ? "gen" : "own"; }
    else cur->state = "fresh";
  }
  std::string st = cur->state;
  Obj o{D, c.p.kind, c.S.size()};
  auto pool = gen_queries(c, x, 30);
  size_t steps = 8 + x.below(50);
  std::map<size_t, std::string> first_answer;  // query index -> first answer seen
  int twins = 0, repeats = 0, failed_then_ok = 0;
  bool last_failed = false;
  for (size_t s2 = 0; s2 < steps && !obj_dead && !pool.empty(); s2++) {
    size_t qi = x.below((uint32_t)pool.size());
    const Query &q = pool[qi];
    cur->state = st;
    std::string a = answer(o, q);
    if (obj_dead) break;
    if (a == "<skipped>") continue;
    bool failed = a == "0" || a == "EMPTY" || a.compare(0, 4, "NULL") == 0;
    if (last_failed && !failed) failed_then_ok++;
    last_failed = failed;
    auto it = first_answer.find(qi);
    if (it != first_answer.end()) {
      repeats++;
      if (it->second != a) ev("C14", "repeated-query-differs", q_render(q) + ": first " + hexs(it->second.substr(0, 100)) + " later " + hexs(a.substr(0, 100)));
    } else first_answer[qi] = a;
    // pristine twin: freshly loaded, asked only this query
    if (saved && x.below(3) == 0) {
      bool own = x.below(2);
      cur->state = own ? "own" : "gen";
      bool dead_before = obj_dead;
      StringDictionary *t = do_load(c, img, own);
      if (t) {
        Obj ot{t, c.p.kind, c.S.size()};
        std::string b = answer(ot, q);
        if (!obj_dead && b != a && b != "<skipped>") ev("C14", "history-dependent", q_render(q) + " after " + std::to_string(s2) + " earlier calls gives " + hexs(a.substr(0, 100)) + ", a fresh copy gives " + hexs(b.substr(0, 100)));
        twins++;
        do_destroy(t);
      }
      obj_dead = dead_before;
      cur->state = st;
    }
  }
  // several iterators open at once, drained in interleaved order
  int interleaved = 0;
  if (!obj_dead && (has_prefix(c.p.kind) || c.p.kind != K_XBW)) {
    cur->state = st;
    std::vector<Query> its;
    for (auto &q : pool) if ((q.type == Q_EXTPREFIX || q.type == Q_TABLE || q.type == Q_EXTSUBSTR) && its.size() < 3) its.push_back(q);
    if (its.size() >= 2) {
      std::vector<std::string> solo;
      for (auto &q : its) solo.push_back(answer(o, q));
      if (!obj_dead) {
        std::vector<IteratorDictString *> open(its.size(), nullptr);
        std::vector<std::unique_ptr<Pat>> pats;
        std::vector<std::string> got(its.size());
        bool okopen = true;
        for (size_t k = 0; k < its.size() && okopen; k++) {
          pats.emplace_back(new Pat(its[k].pat));
          const char *opn = q_opname(its[k].type);
          if (skip(opn)) { okopen = false; break; }
          cur->set_op(opn);
          uchar *pb = pats[k]->buf;
          uint pl = (uint)its[k].pat.size();
          int ty = its[k].type;
          okopen = lib([&] { open[k] = ty == Q_TABLE ? o.d->extractTable() : ty == Q_EXTSUBSTR ? o.d->extractSubstr(pb, pl) : o.d->extractPrefix(pb, pl); });
        }
        if (okopen) {
          bool progress = true;
          size_t guard = 0;
          while (progress && !obj_dead && guard++ < 3 * (c.S.size() + 3)) {
            progress = false;
            for (size_t k = 0; k < its.size() && !obj_dead; k++) {
              if (!open[k]) continue;
              cur->set_op(q_opname(its[k].type));
              lib([&] {
                if (open[k]->hasNext()) {
                  uint len = CANARY;
                  uchar *sx = open[k]->next(&len);
                  if (sx) { size_t sl = strlen((char *)sx); got[k] += std::to_string(sl) + ":" + std::string((char *)sx, sl) + ","; delete[] sx; }
                  progress = true;
                }
              });
            }
          }
          for (size_t k = 0; k < its.size() && !obj_dead; k++) {
            std::string g = got[k].empty() ? "EMPTY" : got[k];
            std::string sref = solo[k];
            size_t lp = sref.find("LEN!");
            if (lp != std::string::npos) sref.erase(lp);
            if (g != sref && sref != "<skipped>" && sref.find("RUNAWAY") == std::string::npos) ev("C14", "interleaved-iterators-differ", q_render(its[k]) + " drained while " + std::to_string(its.size() - 1) + " other iterators were open yields a different stream");
          }
          interleaved = (int)its.size();
        }
        for (size_t k = 0; k < its.size(); k++) if (open[k] && !obj_dead) { IteratorDictString *ip = open[k]; lib([&] { delete ip; }); }
        for (auto &pp : pats) pp->check();
      }
    }
  }
  cur->counters["twin_checks"] += twins;
  cur->counters["repeated_queries"] += repeats;
  if (twins >= 1 && repeats >= 1) cur->labels.insert("c14_twin_and_repeat");
  if (failed_then_ok) cur->labels.insert("c14_failed_then_ok");
  if (interleaved >= 2) cur->labels.insert("c14_interleaved_iterators");
  cur->state = st;
  do_destroy(D);
  attr_override.clear();
}

// ------------------------------------------------------------------ C07: everything, sanitizer as the oracle
static void run_c07(const Case &c, XorShift &x) {
  // every sweep on every state; functional verdicts are other properties' business
  attr_override = "C07f";  // functional events are parked under a name nobody reports
  for_states(c, [&](Obj &o) {
    sweep_c01(o, c, x);
    if (!obj_dead) sweep_c02(o, c, x);
    if (!obj_dead) sweep_c03(o, c, x);
    if (!obj_dead) sweep_c04(o, c, x);
    if (!obj_dead) sweep_c05(o, c, x);
    if (!obj_dead) sweep_c13(o, c, x);
    if (!obj_dead) sweep_c15(o, c);
    if (!obj_dead) sweep_c16(o, c, x);
    // abandoned iterators
    if (!obj_dead && !skip("extract_table")) { StrsR r = op_extract_strs(o, "", 2, "extract_table", 1 + x.below(3)); (void)r; cur->labels.insert("iterator_abandoned"); }
    if (!obj_dead && has_prefix(o.kind) && !skip("extract_prefix")) { std::string p = c.S[x.below((uint32_t)c.S.size())].substr(0, 1); if (!xbw_too_costly(o, c, p, false)) op_extract_strs(o, p, 0, "extract_prefix", 1); }
    // the empty pattern is a well-formed (NUL-terminated) argument too: the searches must come back
    // (iterators are drained up to the usual runaway bound; what they yield is not judged here)
    if (!obj_dead && has_prefix(o.kind)) {
      if (!skip("locate_prefix")) { op_locate_ids(o, "", false, "locate_prefix"); cur->labels.insert("empty_pattern_search"); }
      if (!obj_dead && !skip("extract_prefix")) op_extract_strs(o, "", 0, "extract_prefix");
    }
    if (!obj_dead && has_substr(o, c)) {
      if (!skip("locate_substr")) op_locate_ids(o, "", true, "locate_substr");
      if (!obj_dead && !skip("extract_substr")) op_extract_strs(o, "", 1, "extract_substr");
    }
    // a second save and a query afterwards
    std::string im;
    bool sv = false;
    if (!obj_dead) {
      if (cur->state == "fresh") sv = do_save(o.d, im);
      else if (!skip("resave")) sv = lib([&] { cur->set_op("resave"); im = save_image(o.d); });
    }
    if (sv && !obj_dead && !skip("locate_member")) op_locate(o, c.S[0], "locate_member");
  });
  attr_override.clear();
  // a crash is C07's own business wherever it happens
  for (auto &e : cur->events)
    if (e.prop == "C07f" && (e.clause.find("crash") != std::string::npos || e.clause.find("exception") != std::string::npos)) { /* the C07 signal event already exists */ }
}

// ------------------------------------------------------------------ decode
static void decode_case(Src &s, Case &c) {
  int kind = s.byte() % K_COUNT;
  int nclass = s.pick({20, 20, 60, 70, 50, 36});
  if (cfg.stratum >= 0) { kind = (cfg.stratum / N_CLASSES) % K_COUNT; nclass = cfg.stratum % N_CLASSES; }
  if (cfg.thorough && nclass == 5 && s.below(4) == 0) nclass = 6;
  if (cfg.param == "scale") nclass = 7;
  if (cfg.param == "hugelcp") nclass = 8;
  if (cfg.param == "nsweep") nclass = 6;
  c.p.kind = kind;
  bool table_kind = kind == K_HHTFC || kind == K_HTFC;  // F06/F07: explored where they work
  c.S = gen_strings(s, nclass, cfg.thorough, c.gi, table_kind);
  bool clamp = cfg.prop == "C12" || cfg.prop == "C07";
  bool memalloc = cfg.prop == "C07";
  gen_params(s, c.p, c.S.size(), c.gi.total, clamp, memalloc);
  if (cfg.param == "nsweep") { c.p.memalloc = 32768; if (c.p.bucket < 2 || s.byte() % 2) c.p.bucket = 2 + s.byte() % 7; if (c.p.threads > 4) c.p.threads = 4; }
  if (cfg.param == "scale") {
    // the default reservation unit, and mostly the smallest bucket size (more than 2^16 buckets)
    c.p.memalloc = 32768;
    if (c.p.bucket < 2 || s.byte() % 4 != 3) c.p.bucket = 2 + s.byte() % 3;
    if (c.p.threads > 4) c.p.threads = 4;
  }
  while (!s.exhausted()) c.opbytes.push_back(s.byte());
  if (cfg.thorough) c.cap = 1500;
}

static void case_features(const Case &c) {
  size_t n = c.S.size();
  auto &f = cur->feats;
  if (n == 1) f.insert("n1");
  if (n == 2) f.insert("n2");
  if (n <= 2) f.insert("n_le2");
  if (c.gi.total <= 600) f.insert("tiny_text");
  if ((c.p.kind == K_HASHHF || c.p.kind == K_HASHRPF) && c.p.loadopt > 1) f.insert("loadopt_gt1");
  if (c.gi.family == 9) f.insert("textlike");
  if (c.gi.family == 9 && n >= 65) f.insert("textlike_n65");
  if (c.gi.maxlen >= 128) f.insert("maxlen_ge128");
  if (c.gi.maxlcp >= 128) f.insert("lcp_ge128");
  if (c.gi.maxlcp >= 16384) {
    f.insert("lcp_ge16384");
    // some adjacent pair shares a prefix whose variable-byte code has a zero byte after its first byte (F22)
    for (size_t i = 1; i < n; i++) {
      size_t l = 0;
      while (l < c.S[i].size() && l < c.S[i - 1].size() && c.S[i][l] == c.S[i - 1][l]) l++;
      for (size_t v = l >> 7; v >= 128; v >>= 7)
        if ((v & 127) == 0) f.insert("lcp_vbyte_inner_zero");
    }
  }
  if (c.S[n - 1].size() == 1) f.insert("last_len1");
  if (c.p.memalloc != 32768) f.insert("memalloc_small");
  if (has_bucket(c.p.kind)) {
    if (c.p.bucket < 2) f.insert("bucket_lt2");
    uint32_t b = std::max<uint32_t>(2, c.p.bucket);
    if (n % b == 0) f.insert("n_mult_bucket");
    if (n % b == 1) f.insert("last_bucket_single");
    if (n <= b) f.insert("one_bucket");
  }
  // symbol statistics (the Huffman / Hu-Tucker based kinds depend on them)
  {
    size_t cnt[256] = {0}, total = 0, maxrun = 0;
    for (auto &str : c.S) {
      size_t run = 0;
      for (size_t i = 0; i < str.size(); i++) {
        cnt[(unsigned char)str[i]]++;
        run = (i && str[i] == str[i - 1]) ? run + 1 : 1;
        maxrun = std::max(maxrun, run);
      }
      total += str.size() + 1;
    }
    size_t top = 0;
    for (int ch = 0; ch < 256; ch++) top = std::max(top, cnt[ch]);
    if (2 * (top + 1) + 8 >= total + 256) f.insert("dominant_symbol");   // may get a 1-bit codeword
    if (maxrun >= 14) f.insert("run_ge14");
    if (maxrun >= 6) f.insert("run_ge6");
    f.insert("asize" + std::to_string(c.gi.asize <= 4 ? c.gi.asize : c.gi.asize <= 8 ? 8 : c.gi.asize <= 26 ? 26 : c.gi.asize <= 64 ? 64 : 253));
  }
  // labels (coverage of the generator)
  auto &l = cur->labels;
  l.insert("nclass" + std::to_string(c.gi.nclass));
  l.insert("family" + std::to_string(c.gi.family));
  for (auto &x : f) l.insert(x);
  if (has_bucket(c.p.kind) && n > std::max<uint32_t>(2, c.p.bucket)) l.insert("buckets_ge2");
  bool hi = false;
  for (auto &s : c.S) for (unsigned char ch : s) if (ch >= 0x80) hi = true;
  if (hi) l.insert("bytes_ge_0x80");
}

static std::string render_case(const Case &c) {
  std::string o = "{\"kind\":\"";
  o += kind_names[c.p.kind];
  o += "\",\"params\":" + c.p.str() + ",\"n\":" + std::to_string(c.S.size()) + ",\"family\":" + std::to_string(c.gi.family) + ",\"S\":[";
  for (size_t i = 0; i < c.S.size() && i < 12; i++) {
    if (i) o += ",";
    std::string s = c.S[i].size() > 60 ? c.S[i].substr(0, 60) + "...(" + std::to_string(c.S[i].size()) + " bytes)" : c.S[i];
    o += "\"" + jesc(hexs(s)) + "\"";
  }
  if (c.S.size() > 12) o += ",\"...\"";
  o += "],\"opbytes\":" + std::to_string(c.opbytes.size()) + "}";
  return o;
}

// ------------------------------------------------------------------ entry
int run_case(const uint8_t *data, size_t n, CaseCtx &ctx) {
  Src s(data, n);
  Case c;
  decode_case(s, c);
  ctx.kind = kind_names[c.p.kind];
  case_features(c);
  ctx.sample = render_case(c);
  if (cfg.trace) real_err("CASE %s\n", ctx.sample.c_str());
  uint64_t h = fnv_str(cfg.prop, 1469598103934665603ULL);
  h = fnv_str(c.p.str(), fnv_u64(c.p.kind, h));
  for (auto &str : c.S) h = fnv_str(str, h);
  h = fnv(c.opbytes.data(), c.opbytes.size(), h);
  ctx.hash = h;
  XorShift x(fnv(c.opbytes.data(), c.opbytes.size()) ^ 0x5151);
  const std::string &P = cfg.prop;
  size_t nn = c.S.size();
  bool multi = has_bucket(c.p.kind) ? nn > std::max<uint32_t>(2, c.p.bucket) : nn >= 2;

  if (P == "C01") {
    for_states(c, [&](Obj &o) { sweep_c01(o, c, x); });
    ctx.nontrivial = nn >= 2 && multi;
  } else if (P == "C02") {
    for_states(c, [&](Obj &o) { sweep_c02(o, c, x); });
    ctx.nontrivial = ctx.labels.count("absent:proper_prefix") + ctx.labels.count("absent:extension") >= 1 && (ctx.labels.count("absent:out_of_alphabet") || ctx.labels.count("absent:extension_out_of_alphabet")) && (ctx.labels.count("absent:below_first") || ctx.labels.count("absent:above_last"));
  } else if (P == "C03") {
    for_states(c, [&](Obj &o) { sweep_c03(o, c, x); });
    ctx.nontrivial = nn >= 3 && multi && (is_ordered(c.p.kind) || ctx.labels.count("rank_answered"));
  } else if (P == "C04") {
    for_states(c, [&](Obj &o) { sweep_c04(o, c, x); });
    ctx.nontrivial = ctx.labels.count("c04_nontrivial");
  } else if (P == "C05") {
    for_states(c, [&](Obj &o) { sweep_c05(o, c, x); });
    ctx.nontrivial = ctx.labels.count("c05_nontrivial");
  } else if (P == "C13") {
    for_states(c, [&](Obj &o) { sweep_c13(o, c, x); });
    ctx.nontrivial = nn >= 3 && (ctx.labels.count("scan:offset_nonzero_crossing") || ctx.labels.count("table:n_mod_bucket_0_1") || !has_bucket(c.p.kind));
  } else if (P == "C15") {
    for_states(c, [&](Obj &o) { sweep_c15(o, c); });
    size_t longest = 0;
    for (size_t i = 0; i < nn; i++) if (c.S[i].size() > c.S[longest].size()) longest = i;
    ctx.nontrivial = nn >= 2 && longest != 0;
  } else if (P == "C06" && cfg.param == "nsweep") {
    run_c06_nsweep(c, x);
    ctx.nontrivial = ctx.labels.count("c06_nsweep");
  } else if (P == "C06") {
    run_c06(c, x);
    ctx.nontrivial = nn >= 2 && ctx.labels.count("c06_stream_of_two");
  } else if (P == "C08") {
    if (cfg.param == "perturb") { run_c08_perturb(c); ctx.nontrivial = nn >= 2 && ctx.labels.count("c08_perturb_pair"); }
    else { run_c08(c, x); ctx.nontrivial = nn >= 2 && ctx.counters["saves"] >= 2; }
  } else if (P == "C12") {
    Src rest(c.opbytes.data(), c.opbytes.size());
    run_c12(c, rest, x);
    ctx.nontrivial = nn >= 3 && (ctx.labels.count("c12_layout_differs") || ctx.labels.count("c12_cross_kind") || ctx.labels.count("c12_clamp"));
  } else if (P == "C14") {
    run_c14(c, x);
    ctx.nontrivial = ctx.labels.count("c14_twin_and_repeat");
  } else if (P == "C07" && cfg.param == "perturb") {
    run_c07_perturb(c, x);
    ctx.nontrivial = nn >= 2 && ctx.labels.count("c07_perturb_pair");
  } else if (P == "C07") {
    run_c07(c, x);
    ctx.nontrivial = nn == 1 || ctx.feats.count("n_mult_bucket") || ctx.feats.count("maxlen_ge128") || ctx.feats.count("memalloc_small") || ctx.labels.count("iterator_abandoned");
  } else if (P == "C18") {
    // chunked table decoding as the code base uses it: the coded dictionary kinds must give back every
    // string they coded (events are re-attributed to C18, clause prefix C01:)
    attr_override = "C18";
    for_states(c, [&](Obj &o) { sweep_c01(o, c, x); });
    attr_override.clear();
    ctx.nontrivial = nn >= 2;
    if (c.gi.family == 7) ctx.labels.insert("c18_big_skewed_text");
  } else if (P == "C16") {
    for_states(c, [&](Obj &o) { sweep_c16(o, c, x); });
    {
      cur->state = "fresh";
      StringDictionary *d = do_build(c);
      std::string img;
      bool sv = d && do_save(d, img);
      do_destroy(d);
      if (sv) c16_tags_and_foreign_images(c, img, x);
    }
    ctx.nontrivial = ctx.labels.count("supported_after_unsupported");
  }
  if (ctx.tainted) {
    // heap state is no longer trusted: keep only sanitizer events
    std::vector<Event> keep;
    for (auto &e : ctx.events)
      if (e.prop == "C07" || e.clause.compare(0, 5, "asan:") == 0 || e.clause == "crash" || e.clause.find(":crash") != std::string::npos) keep.push_back(e);
    ctx.events.swap(keep);
  }
  return 0;
}

}  // namespace vh
