// Race family: C11.  Multi-block HASHRPDACBlocks builds and WorkerPool runs with real threads under
// ThreadSanitizer; every "data race" report is an event (lock-order inversions are listed separately).
#include <signal.h>
#include <sys/wait.h>
#include <time.h>
#include <unistd.h>

#include <atomic>
#include <cstring>
#include <sstream>
#include <vector>

#include "common.h"
#include "dict_gen.h"
#include "dict_obj.h"
#include "parallel/Worker.hpp"

extern "C" int libcsd_verif_memalloc = 32768;

namespace vh {

const char *family_name() { return "race"; }

static double now() { struct timespec ts; clock_gettime(CLOCK_MONOTONIC, &ts); return ts.tv_sec + ts.tv_nsec * 1e-9; }

static void scan_text(CaseCtx &ctx, const std::string &cap) {
  size_t p = 0;
  int n = 0;
  while ((p = cap.find("WARNING: ThreadSanitizer: ", p)) != std::string::npos && n < 10) {
    size_t e = cap.find('\n', p);
    std::string kind = cap.substr(p + 26, (e == std::string::npos ? cap.size() : e) - p - 26);
    // the two access sites: first "#0 ... in FUNC" lines of the first two stacks
    std::string sites;
    size_t q = p;
    for (int k = 0; k < 2; k++) {
      size_t f = cap.find("    #0 ", q);
      if (f == std::string::npos) break;
      size_t le = cap.find('\n', f);
      std::string line = cap.substr(f + 7, le - f - 7);
      size_t in = line.find(" in ");
      std::string fn = in == std::string::npos ? line : line.substr(in + 4);
      size_t par = fn.find('(');
      if (par != std::string::npos) fn = fn.substr(0, par);
      // skip allocator / interceptor frames: take the next frame inside the repository if #0 is not
      sites += (k ? " | " : "") + fn;
      q = le;
    }
    bool race = kind.compare(0, 9, "data race") == 0;
    ctx.event(race ? "C11" : "C11-other", race ? "data-race" : "tsan-other", kind + " [" + sites + "]", std::string("race/") + sites);
    p = e == std::string::npos ? cap.size() : e;
    n++;
  }
}

static int run_scenario(const uint8_t *data, size_t n, CaseCtx &ctx) {
  Src s(data, n);
  int scenario = cfg.stratum >= 0 ? cfg.stratum % 2 : s.below(2);
  ctx.state = "-";
  ctx.hash = fnv(data, n, fnv_str("C11", 1469598103934665603ULL));
  mark_capture();
  if (scenario == 0) {
    // multi-block build with real overlap: blocks of >= ~20 KB
    ctx.kind = "BLOCKS";
    ctx.set_op("parallel_build");
    GenInfo gi;
    std::vector<std::string> S;
    {
      // text-like strings; shape 0: 2-8 blocks of 8-60 KB (workers overlap with one another);
      // shapes 1,2: 30-4000 blocks of one or a few strings (workers finish while the producer is still
      // cutting and queueing blocks, so producer-side accesses overlap with worker-side ones)
      XorShift x(s.u32() + 17);
      int shape = s.below(3);
      size_t blocks = 2 + s.below(7), per = 8000 + s.below(50000);
      if (shape) { blocks = 30 + s.below(shape == 1 ? 300 : 4000); per = 1 + s.below(64); ctx.labels.insert("tiny_blocks"); }
      size_t target = blocks * per, total = 0;
      while (total < target) {
        size_t L = 3 + x.below(30);
        std::string t;
        for (size_t q = 0; q < L; q++) t += (char)('a' + x.below(26));
        S.push_back(t);
        total += L + 1;
      }
      std::sort(S.begin(), S.end(), ult);
      S.erase(std::unique(S.begin(), S.end()), S.end());
      gi.total = 0;
      for (auto &t : S) gi.total += t.size() + 1;
      Params p;
      p.kind = K_BLOCKS;
      static const int th[] = {2, 3, 4, 8};
      p.threads = th[s.below(4)];
      p.cut = per;
      p.overhead = (int[]){25, 0, 10, 100}[s.below(4)];
      std::string img;
      bool ok = guarded([&] {
        StringDictionary *d = build_dict(p, S);
        img = save_image(d);
        // queries from two threads at once on the finished object are not part of C11; destroy
        delete d;
      });
      if (!ok) ctx.event("C11", "crash", "fatal signal in the parallel build");
      uint32_t parts = 0;
      if (img.size() >= 28) memcpy(&parts, img.data() + 24, 4);
      ctx.counters["blocks"] += parts;
      ctx.nontrivial = parts >= 2 && p.threads >= 2;
      if (parts >= 4) ctx.labels.insert("blocks_ge4");
      if (parts >= 100) ctx.labels.insert("blocks_ge100");
      ctx.sample = "{\"scenario\":\"parallel_build\",\"strings\":" + std::to_string(S.size()) + ",\"bytes\":" + std::to_string(gi.total) + ",\"cut\":" + std::to_string(p.cut) + ",\"threads\":" + std::to_string(p.threads) + ",\"blocks\":" + std::to_string(parts) + "}";
    }
  } else {
    // pool with task bodies that touch only task-private memory
    ctx.kind = "WorkerPool";
    ctx.set_op("pool");
    int w = 2 + s.below(3), t = 1 + s.below(40), protocol = s.below(3);
    std::vector<long> priv(t, 0);
    std::vector<double> t0(t, 0), t1(t, 0);
    std::vector<int> spin(t);
    for (int i = 0; i < t; i++) spin[i] = 200 + s.below(30) * 300;
    bool ok = guarded([&] {
      WorkerPool pool(w);
      std::mutex m;
      std::condition_variable cv;
      int done = 0;
      for (int i = 0; i < t; i++)
        pool.add_task([&, i]() {
          t0[i] = now();
          unsigned long r = i;
          for (int j = 0; j < spin[i]; j++) r += (r * 31 + j) ^ (r >> 3);
          priv[i] = (long)r;
          t1[i] = now();
          if (protocol == 1) { { std::lock_guard<std::mutex> lg(m); done++; } cv.notify_all(); }
          else if (protocol == 2) { std::lock_guard<std::mutex> lg(m); done++; if (done == t) pool.stop_all_workers(); }
        });
      if (protocol == 1) { std::unique_lock<std::mutex> ul(m); cv.wait(ul, [&] { return done == t; }); }
      if (protocol != 2) pool.stop_all_workers();
      pool.wait_workers();
    });
    if (!ok) ctx.event("C11", "crash", "fatal signal in the pool run");
    // overlap label only (never a verdict): two tasks whose execution intervals intersect
    bool overlap = false;
    for (int i = 0; i < t && !overlap; i++)
      for (int j = i + 1; j < t; j++)
        if (t0[i] < t1[j] && t0[j] < t1[i]) { overlap = true; break; }
    if (overlap) ctx.labels.insert("tasks_overlapped");
    ctx.nontrivial = w >= 2 && t >= 2;
    ctx.sample = "{\"scenario\":\"pool\",\"workers\":" + std::to_string(w) + ",\"tasks\":" + std::to_string(t) + ",\"protocol\":" + std::to_string(protocol) + "}";
  }
  return 0;
}

// Every case runs in a forked child: a racy build can leave its threads blocked for ever, and under
// ThreadSanitizer a blocked thread cannot be interrupted from inside the process.  The parent enforces
// a wall-clock bound, then reads the child's sanitizer output.
int run_case(const uint8_t *data, size_t n, CaseCtx &ctx) {
  char path[] = "/tmp/verif_race_XXXXXX";
  int fd = mkstemp(path);
  int pfd[2];
  if (fd < 0 || pipe(pfd) != 0) return 0;
  fflush(stdout);
  pid_t pid = fork();
  if (pid < 0) { close(fd); unlink(path); close(pfd[0]); close(pfd[1]); ctx.conclusive = false; ctx.inconclusive_reason = "fork-failed"; return 0; }
  if (pid == 0) {
    dup2(fd, 2);
    dup2(fd, 1);
    close(pfd[0]);
    CaseCtx c;
    cur = &c;
    run_scenario(data, n, c);
    std::string rec = std::string(c.nontrivial ? "1" : "0") + "\n" + c.kind + "\n" + c.sample + "\n";
    for (auto &l : c.labels) rec += l + ",";
    rec += "\n";
    for (auto &e : c.events) rec += "EV\t" + e.prop + "\t" + e.clause + "\t" + e.msg + "\n";
    (void)!write(pfd[1], rec.data(), rec.size());
    _exit(0);
  }
  close(pfd[1]);
  ctx.state = "-";
  ctx.op = "race_case";
  ctx.hash = fnv(data, n, fnv_str("C11", 1469598103934665603ULL));
  int status = 0;
  bool done = false;
  for (int i = 0; i < 600; i++) {  // 60 s of wall time; the normal case takes well under a second
    if (waitpid(pid, &status, WNOHANG) == pid) { done = true; break; }
    usleep(100000);
  }
  bool blocked = false;
  if (!done) { blocked = true; kill(pid, SIGKILL); waitpid(pid, &status, 0); }
  std::string rec;
  char buf[4096];
  ssize_t r;
  while ((r = read(pfd[0], buf, sizeof buf)) > 0) rec.append(buf, r);
  close(pfd[0]);
  std::istringstream is(rec);
  std::string line;
  if (std::getline(is, line)) ctx.nontrivial = line == "1";
  if (std::getline(is, line)) ctx.kind = line;
  if (std::getline(is, line)) ctx.sample = line;
  if (std::getline(is, line)) { size_t a = 0; while (a < line.size()) { size_t b = line.find(',', a); if (b == std::string::npos) break; ctx.labels.insert(line.substr(a, b - a)); a = b + 1; } }
  while (std::getline(is, line))
    if (line.compare(0, 3, "EV\t") == 0) {
      size_t a = 3, b = line.find('\t', a), c2 = b == std::string::npos ? b : line.find('\t', b + 1);
      if (b != std::string::npos && c2 != std::string::npos) ctx.event(line.substr(a, b - a).c_str(), line.substr(b + 1, c2 - b - 1).c_str(), line.substr(c2 + 1));
    }
  if (ctx.kind.empty()) ctx.kind = "race";
  std::string cap;
  lseek(fd, 0, SEEK_SET);
  while ((r = read(fd, buf, sizeof buf)) > 0 && cap.size() < (4 << 20)) cap.append(buf, r);
  close(fd);
  unlink(path);
  scan_text(ctx, cap);
  if (blocked) ctx.event("C11", "blocked", std::string("the case did not finish within 60 s of wall time (threads blocked); ") + (ctx.reportable("C11") ? "race reports precede" : "no race report before"));
  else if (WIFSIGNALED(status)) ctx.event("C11", "crash", "child died with signal " + std::to_string(WTERMSIG(status)));
  else if (rec.empty()) { ctx.conclusive = false; ctx.inconclusive_reason = "child-no-verdict(exit " + std::to_string(WEXITSTATUS(status)) + ")"; }
  if (cfg.trace) real_err("CASE %s\n", ctx.sample.c_str());
  return 0;
}

}  // namespace vh
