// rapidcheck driver: knows nothing about /repo.  Generates byte vectors, hands them
// to run_case (defined by the family linked into this binary), lets rapidcheck shrink.
#include <rapidcheck.h>
#include <algorithm>
#include <time.h>
#include <unistd.h>

#include <cstdio>
#include <cstdlib>
#include <fstream>
#include <iterator>
#include <set>
#include <string>
#include <vector>

#include "common.h"

namespace vh { int real_stdout_fd(); }
using namespace vh;

static std::vector<uint8_t> last_fail;
static std::string last_fail_json;
static long n_exec = 0;
static double first_fail_at = 0;
static double shrink_budget_s = 60;
static std::string avoid_path;           // restarts after a hard death: hashes of the cases that killed a worker
static std::set<uint64_t> avoid;

static std::string events_json(const CaseCtx &c) {
  std::string o = "[";
  bool first = true;
  for (auto &e : c.events) {
    if (!first) o += ",";
    first = false;
    o += "{\"prop\":\"" + e.prop + "\",\"clause\":\"" + jesc(e.clause) + "\",\"kind\":\"" + e.kind + "\",\"state\":\"" +
         e.state + "\",\"op\":\"" + e.op + "\",\"sig\":\"" + jesc(e.sig) + "\",\"known\":" + (e.known ? "true" : "false") +
         ",\"finding\":\"" + e.finding_id + "\",\"msg\":\"" + jesc(e.msg.substr(0, 600)) + "\"}";
  }
  return o + "]";
}

static std::string result_json(const CaseCtx &c) {
  std::string o = "{\"family\":\"";
  o += family_name();
  o += "\",\"prop\":\"" + cfg.prop + "\",\"reportable\":" + std::to_string(c.reportable(cfg.prop)) +
       ",\"nontrivial\":" + (c.nontrivial ? "true" : "false") + ",\"conclusive\":" + (c.conclusive ? "true" : "false") +
       ",\"tainted\":" + (c.tainted ? "true" : "false") + ",\"excluded\":" + std::to_string(c.excluded) +
       ",\"inconclusive_reason\":\"" + jesc(c.inconclusive_reason) + "\",\"case\":" + (c.sample.empty() ? "null" : c.sample) +
       ",\"events\":" + events_json(c) + "}";
  return o;
}

// case files = [u16 LE: stratum+1 (0 = decoded from the payload)] + payload
static std::vector<uint8_t> with_header(const std::vector<uint8_t> &v) {
  std::vector<uint8_t> f;
  uint32_t h = cfg.stratum >= 0 ? (uint32_t)cfg.stratum + 1 : 0;
  f.push_back(h & 0xff);
  f.push_back((h >> 8) & 0xff);
  f.insert(f.end(), v.begin(), v.end());
  return f;
}

// returns number of reportable events
static int exec_case(const std::vector<uint8_t> &v, std::string *json) {
  CaseCtx c;
  std::vector<uint8_t> file = with_header(v);
  begin_case(c, file.data(), file.size());
  run_case(v.data(), v.size(), c);
  end_case(c);
  n_exec++;
  int r = c.reportable(cfg.prop);
  static const bool survey = getenv("VERIF_SURVEY") != nullptr;
  if (survey && !cfg.logdir.empty() && !cfg.replay) {
    // development aid: record every event signature and never fail, so one run shows the whole landscape
    std::string o;
    for (auto &e : c.events) o += e.prop + "\t" + e.sig + "\t" + (e.known ? "known" : "new") + "\t" + jesc(e.msg.substr(0, 300)) + "\n";
    if (!o.empty()) {
      FILE *f = fopen((cfg.logdir + "/w" + std::to_string(cfg.worker) + ".events").c_str(), "a");
      if (f) { fwrite(o.data(), 1, o.size(), f); fclose(f); }
      static int kept = 0;
      if (kept < 3) { write_file(cfg.logdir + "/w" + std::to_string(cfg.worker) + ".ev" + std::to_string(kept++) + ".case", file.data(), file.size()); }
    }
    if (c.tainted) _exit(77);
    return 0;
  }
  if (json) *json = result_json(c);
  // a write / free error was reported and nothing of this property fails: the heap can no
  // longer be trusted, ask the driver for a fresh process (DESIGN 2.4)
  if (c.tainted && r == 0 && !cfg.replay) _exit(77);
  // ... and when something of this property does fail on a tainted heap, in-process shrinking would run on
  // corrupted memory (and a follow-up fatal sanitizer error would lose the case): report it unshrunk now
  if (c.tainted && r > 0 && !cfg.replay && !cfg.logdir.empty()) {
    write_file(cfg.logdir + "/w" + std::to_string(cfg.worker) + ".fail.case", file.data(), file.size());
    std::string js = result_json(c);
    write_file(cfg.logdir + "/w" + std::to_string(cfg.worker) + ".fail.json", js.data(), js.size());
    _exit(1);
  }
  return r;
}

int main(int argc, char **argv) {
  std::string replay, known;
  for (int i = 1; i < argc; i++) {
    std::string a = argv[i];
    auto val = [&]() -> std::string { return i + 1 < argc ? argv[++i] : ""; };
    if (a == "--prop") cfg.prop = val();
    else if (a == "--stratum") cfg.stratum = atoi(val().c_str());
    else if (a == "--log") cfg.logdir = val();
    else if (a == "--worker") cfg.worker = atoi(val().c_str());
    else if (a == "--known") known = val();
    else if (a == "--replay") replay = val();
    else if (a == "--trace") cfg.trace = true;
    else if (a == "--thorough") cfg.thorough = true;
    else if (a == "--param") cfg.param = val();
    else if (a == "--avoid") avoid_path = val();
  }
  if (!known.empty()) load_findings(known);
  if (!avoid_path.empty()) {
    std::ifstream in(avoid_path);
    unsigned long long h;
    while (in >> std::hex >> h) avoid.insert(h);
  }
  cfg.replay = !replay.empty();
  init_runtime();

  if (cfg.replay) {
    std::ifstream in(replay, std::ios::binary);
    std::vector<uint8_t> f((std::istreambuf_iterator<char>(in)), std::istreambuf_iterator<char>());
    uint32_t h = (f.size() > 0 ? f[0] : 0) | ((f.size() > 1 ? f[1] : 0) << 8);
    cfg.stratum = (int)h - 1;
    std::vector<uint8_t> v(f.begin() + std::min<size_t>(2, f.size()), f.end());
    std::string js;
    int r = exec_case(v, &js);
    js += "\n";
    (void)!write(real_stdout_fd(), js.data(), js.size());
    return r ? 1 : 0;
  }

  int maxlen_scale = 1;
  if (const char *s = getenv("VERIF_LEN_SCALE")) maxlen_scale = atoi(s) > 0 ? atoi(s) : 1;
  bool ok = rc::check(std::string("property ") + cfg.prop, [&]() {
    // uniform bytes at every size (inRange collapses at small sizes unless resized);
    // the vector length follows rapidcheck's size parameter
    auto byteGen = rc::gen::map(rc::gen::resize(200, rc::gen::inRange<int>(0, 256)), [](int x) { return (uint8_t)x; });
    auto v = *rc::gen::scale((double)maxlen_scale, rc::gen::container<std::vector<uint8_t>>(byteGen));
    // shrinking is bounded in wall time (a failing case that blocks or crawls would otherwise make the
    // shrink phase take hours): afterwards every candidate "passes" and rapidcheck stops at the best so far
    if (first_fail_at > 0 && (double)time(nullptr) - first_fail_at > shrink_budget_s) return;
    if (!avoid.empty()) {
      std::vector<uint8_t> f = with_header(v);
      if (avoid.count(fnv(f.data(), f.size()))) return;  // already reported by the driver as a crash
    }
    std::string js;
    int r = exec_case(v, &js);
    if (r) {
      last_fail = with_header(v);
      last_fail_json = js;
      if (first_fail_at == 0) first_fail_at = (double)time(nullptr);
      if (js.find("signal:BLOCKED") != std::string::npos || js.find("\"blocked\"") != std::string::npos) shrink_budget_s = 0;  // every attempt costs a full watchdog period
    }
    RC_ASSERT(r == 0);
  });
  if (!ok && !cfg.logdir.empty()) {
    write_file(cfg.logdir + "/w" + std::to_string(cfg.worker) + ".fail.case", last_fail.data(), last_fail.size());
    write_file(cfg.logdir + "/w" + std::to_string(cfg.worker) + ".fail.json", last_fail_json.data(), last_fail_json.size());
  }
  if (!cfg.logdir.empty()) {
    std::string d = std::to_string(n_exec) + "\n";
    write_file(cfg.logdir + "/w" + std::to_string(cfg.worker) + ".done", d.data(), d.size());
  }
  return ok ? 0 : 1;
}
