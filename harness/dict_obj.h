// Construction / persistence wrappers.  Calling conventions are copied from the
// repository's own callers (Build.cpp, Test.cpp, test/*.cpp), see DESIGN.md 2.3.
#pragma once
#include <sstream>

#include "StringDictionary.h"
#include "StringDictionaryHASHRPDACBlocks.h"
#include "dict_gen.h"
#include "iterators/IteratorDictStringPlain.h"

extern "C" int libcsd_verif_memalloc;

namespace vh {

inline uchar *plain_buffer(const std::vector<std::string> &S, size_t &len, size_t extra) {
  len = 0;
  for (auto &s : S) len += s.size() + 1;
  uchar *buf = new uchar[len + extra];
  size_t p = 0;
  for (auto &s : S) {
    memcpy(buf + p, s.data(), s.size());
    p += s.size();
    buf[p++] = 0;
  }
  for (size_t i = 0; i < extra; i++) buf[len + i] = 0;
  return buf;
}

// builds a dictionary exactly as Build.cpp / the tests do
inline StringDictionary *build_dict(const Params &p, const std::vector<std::string> &S) {
  size_t len = 0;
  libcsd_verif_memalloc = (int)p.memalloc;
  StringDictionary *d = nullptr;
  switch (p.kind) {
    case K_HASHHF: case K_HASHRPF: case K_HASHUFFDAC: case K_HASHRPDAC: {
      // Build.cpp case 1/2: buffer of lenStr+1 bytes with a trailing NUL, lenStr passed
      uchar *buf = plain_buffer(S, len, 1);
      IteratorDictString *it = new IteratorDictStringPlain(buf, len);
      if (p.kind == K_HASHHF) d = new StringDictionaryHASHHF(it, (uint)len, p.overhead);
      else if (p.kind == K_HASHRPF) d = new StringDictionaryHASHRPF(it, (uint)len, p.overhead);
      else if (p.kind == K_HASHUFFDAC) d = new StringDictionaryHASHUFFDAC(it, (uint)len, p.overhead);
      else d = new StringDictionaryHASHRPDAC(it, (uint)len, p.overhead);
      break;  // constructor deletes the iterator (and with it the buffer)
    }
    case K_PFC: case K_RPFC: case K_HTFC: case K_HHTFC: case K_RPHTFC: {
      uchar *buf = plain_buffer(S, len, 0);
      IteratorDictString *it = new IteratorDictStringPlain(buf, len);
      if (p.kind == K_PFC) d = new StringDictionaryPFC(it, p.bucket);
      else if (p.kind == K_RPFC) d = new StringDictionaryRPFC(it, p.bucket);
      else if (p.kind == K_HTFC) d = new StringDictionaryHTFC(it, p.bucket);
      else if (p.kind == K_HHTFC) d = new StringDictionaryHHTFC(it, p.bucket);
      else d = new StringDictionaryRPHTFC(it, p.bucket);
      break;
    }
    case K_RPDAC: {
      uchar *buf = plain_buffer(S, len, 0);
      IteratorDictString *it = new IteratorDictStringPlain(buf, len);
      d = new StringDictionaryRPDAC(it);
      break;
    }
    case K_FMINDEX: {
      uchar *buf = plain_buffer(S, len, 0);
      IteratorDictString *it = new IteratorDictStringPlain(buf, len);
      d = new StringDictionaryFMINDEX(it, p.fm_sparse, p.fm_bparam, p.fm_bwt);
      delete it;  // Build.cpp case 6: the caller deletes
      break;
    }
    case K_XBW: {
      uchar *buf = plain_buffer(S, len, 0);  // private copy: the constructor overwrites terminators
      IteratorDictString *it = new IteratorDictStringPlain(buf, len - 1);  // Build.cpp case 7
      d = new StringDictionaryXBW(it);
      delete it;
      break;
    }
    case K_BLOCKS: {
      uchar *buf = plain_buffer(S, len, 0);
      IteratorDictStringPlain *it = new IteratorDictStringPlain(buf, len);
      d = new StringDictionaryHASHRPDACBlocks(it, len, p.overhead, p.cut, p.threads);
      break;
    }
  }
  return d;
}

inline std::string save_image(StringDictionary *d) {
  std::ostringstream os(std::ios::out | std::ios::binary);
  d->save(os);
  return os.str();
}

inline StringDictionary *load_own(int kind, std::istream &in, uint32_t opt) {
  switch (kind) {
    case K_PFC: return StringDictionaryPFC::load(in);
    case K_RPFC: return StringDictionaryRPFC::load(in);
    case K_HTFC: return StringDictionaryHTFC::load(in);
    case K_HHTFC: return StringDictionaryHHTFC::load(in);
    case K_RPHTFC: return StringDictionaryRPHTFC::load(in);
    case K_RPDAC: return StringDictionaryRPDAC::load(in);
    case K_FMINDEX: return StringDictionaryFMINDEX::load(in);
    case K_XBW: return StringDictionaryXBW::load(in);
    case K_HASHHF: return StringDictionaryHASHHF::load(in, opt);
    case K_HASHRPF: return StringDictionaryHASHRPF::load(in, opt);
    case K_HASHUFFDAC: return StringDictionaryHASHUFFDAC::load(in);
    case K_HASHRPDAC: return StringDictionaryHASHRPDAC::load(in);
    case K_BLOCKS: return StringDictionaryHASHRPDACBlocks::load(in);
  }
  return nullptr;
}

inline StringDictionary *load_generic(const std::string &img, uint32_t opt) {
  std::istringstream is(img, std::ios::in | std::ios::binary);
  return StringDictionary::load(is, opt);
}

}  // namespace vh
